// simslab — C01..C05: the real slab_pool over a simulated Policy (DESIGN.md §3.1).
#include "../common.hpp"
#include "sut.hpp"
#include <stdio.h>
#include <stdlib.h>
#include <string.h>
#include <sys/mman.h>
#include <algorithm>
#include <set>
#include <iterator>

using namespace sim;

enum { OP_ALLOC = 0, OP_FREE, OP_DEALLOC, OP_REALLOC, OP_REALLOC_NULL, OP_REALLOC_ZERO, OP_FREE_NULL, OP_GETSIZE, OP_VERIFY, OP_GIVE, OP_TAKE, OP_PAGES, OP_CHURN, OP_BULK, OP_MASS, OP_N };
static const char *op_names[OP_N] = {"alloc", "free", "dealloc", "realloc", "realloc_null", "realloc_zero", "free_null", "get_size", "verify", "give", "take", "used_pages", "churn", "bulk", "mass"};
static const int NH = 48;      // handle slots addressed by plan ops
static const uint32_t NORETRY = 1u << 31; // flag in Op::mapfail: a failed request is not retried at once (failure bursts)
static const int NBULK = 6144; // extra slots used by the bulk op (fills whole slabs)
static const int NMASS = 72000; // further slots used by the mass op only (more than 65535 live blocks in ONE slab; needs slabs of 512 KiB and more)

static int P_maps, P_unmaps, P_slab_first, P_slab_additional, P_large, P_realloc_inplace, P_realloc_moved, P_realloc_map, P_xfree, P_handover, P_take_fail, P_contended_construct, P_remote_free_into_head,
	P_relink_full, P_mapfail_injected, P_mapfail_while_other_holds, P_skipped, P_poison_redundant, P_unpoison_redundant, P_churn_iters, P_arena_exhausted, P_lock_contention, P_recovered, P_pages_sampled, P_unaligned_slack, P_bulk_blocks, P_slab_filled, P_long_churn, P_granule_runs, P_burst_fail, P_multi_pages_checked, P_reuse_checked, P_huge_maps, P_huge_blocks, P_huge_realloc_grow, P_huge_realloc_clamped, P_huge_lazy, P_subpage_base, P_mass, P_mass_blocks, P_trace_records, P_full_fill, P_long_churn2;

struct Region { uint64_t base, len; int kind; /*0 slab,1 large*/ int64_t pages; int by_task, by_op; uint64_t cls; bool counted; int64_t live = 0; int last_free_task = 0; uint64_t last_free_step = 0; };
struct Block { char *ptr = nullptr; size_t req = 0, reported = 0; uint64_t pat = 0; int owner = 0; int alloc_task = 0; bool live = false, offered = false, inflight = false, busy = false; VC chan; };

struct SlabEngine;
static SlabEngine *G;

// Requests of 2^31 bytes and more ("huge"): C02/C03 quantify over all sizes, and 32-bit truncation of a length is the
// realistic mistake there. Such mappings are served from a 120 GiB tail of reserved (PROT_NONE, never committed)
// address space directly behind the arena, so that offsets stay linear; the head of a region and the owner's fill windows
// are made accessible eagerly, any other page of a mapped region on first touch (on_fault). Accesses there are outside
// the race detector's shadow.
static const uint64_t HUGE_MIN = 1ull << 30, TAIL_SIZE = 120ull << 30;
static inline bool in_tail(const void *p) { uint64_t o = off(p); return o >= arena_size && o < arena_size + TAIL_SIZE; }

// What the owner writes into a block: normally three windows (head, middle, tail) of a per-block pattern. One block in 16
// (decided by pattern bits, so nothing else has to be remembered) is written and later verified in FULL if it is at most
// 128 KiB, and half of those hold nothing but zero bytes — whole pages of zeros are ordinary user data too.
static inline bool pat_zero(uint64_t pat) { return ((pat >> 40) & 31) == 16; }
static inline bool pat_full(uint64_t pat, size_t w) { return w > 192 && w <= ((size_t)128 << 10) && ((pat >> 40) & 15) == 0; }
static inline uint8_t patbyte(uint64_t pat, size_t i) { return pat_zero(pat) ? 0 : (uint8_t)((pat >> ((i & 7) * 8)) ^ (i * 131) ^ (i >> 8)); }

struct SlabEngine : Engine {
	int pc = 0, mt = 0; const SlabApi *api = nullptr; PolicyInfo pi;
	void *pool = nullptr;
	uint8_t *pshadow = nullptr; // 1 = poisoned
	std::vector<Region> regions;       // mapped now, sorted by base
	std::vector<Region> unmapped_hist; // for double-unmap diagnosis
	std::vector<Block> blk = std::vector<Block>(NH + NBULK + NMASS);
	int slot_hi = NH + NBULK; // one past the highest slot used in this run (the mass slots are reset and scanned only when used)
	std::map<uint64_t, int> live_by_addr; // offset of ptr -> handle
	uint64_t policy_base = 0, policy_top = 0;
	bool tail_ok = false, tail_dirty = false; uint64_t tail_top = 0;
	std::map<uint64_t, uint64_t> tail_unpoisoned; // poison state of tail memory: disjoint [start, end) intervals that are unpoisoned
	std::string profile; bool single = true, faultfree = true;
	size_t max_small = 0;
	// per task, current op bookkeeping
	struct Cur { int op_maps = 0; int map_calls = 0; uint32_t mapfail = 0, place = 0; bool failed_any = false; int maps_ok = 0, unmaps = 0; std::vector<uint64_t> mapped_bases; std::vector<Region> unmapped; int inflight_h = -1; int last_opid = -100; bool failed_injected = false; } cur[MAXT];
	// footprint
	std::map<uint64_t, int64_t> live_cls, peak_cls, slabs_cls;
	static std::map<std::pair<int, uint64_t>, int64_t> bps_cache;
	static std::map<std::pair<int, uint64_t>, int64_t> slab_pages_cache;
	static std::map<int, uint64_t> max_small_cache; // largest small-object size (measured)
	int calib_unmaps = 0; // numUsedPages() delta of one slab of a class (measured)
	bool calibrating = false; uint64_t calib_top = 0; int calib_maps = 0;
	// fault learning for C04 derive()
	std::vector<std::pair<int, int>> map_sites; // (index into plan.ops, j)
	std::vector<size_t> op_index_of; // per (task,opid) lookup built in setup
	const Plan *cur_plan = nullptr;
	uint64_t total_maps = 0;

	SlabEngine() {
		G = this;
		P_maps = probe_id("policy_map_calls"); P_unmaps = probe_id("policy_unmap_calls"); P_slab_first = probe_id("map_first_slab_of_class"); P_slab_additional = probe_id("map_additional_slab");
		P_large = probe_id("map_large_frame"); P_realloc_inplace = probe_id("realloc_in_place"); P_realloc_moved = probe_id("realloc_moved"); P_realloc_map = probe_id("map_inside_copying_realloc");
		P_xfree = probe_id("free_by_other_task"); P_handover = probe_id("block_handed_between_tasks"); P_take_fail = probe_id("take_gave_up"); P_contended_construct = probe_id("two_tasks_constructing_slab_for_same_class");
		P_remote_free_into_head = probe_id("free_into_slab_another_task_allocates_from"); P_relink_full = probe_id("full_slab_relinked_by_free"); P_mapfail_injected = probe_id("map_failures_injected");
		P_mapfail_while_other_holds = probe_id("map_failure_while_other_task_holds_a_pool_lock"); P_skipped = probe_id("ops_skipped_precondition"); P_poison_redundant = probe_id("kasan_strict:poison_of_poisoned_byte");
		P_unpoison_redundant = probe_id("kasan_strict:unpoison_of_unpoisoned_byte"); P_churn_iters = probe_id("churn_iterations"); P_arena_exhausted = probe_id("arena_exhausted"); P_lock_contention = probe_id("alloc_or_free_overlapping_another_task's");
		P_recovered = probe_id("retry_after_map_failure_succeeded"); P_pages_sampled = probe_id("used_pages_sampled"); P_unaligned_slack = probe_id("unaligned_map_nonzero_residue"); P_bulk_blocks = probe_id("bulk_blocks_allocated"); P_slab_filled = probe_id("slab_filled_completely(second_slab_of_class_mapped_in_bulk)"); P_long_churn = probe_id("long_churn_over_65536_allocations"); P_granule_runs = probe_id("runs_with_8_byte_granule_poison_shadow"); P_burst_fail = probe_id("map_failure_inside_a_burst_of_consecutive_failures"); P_multi_pages_checked = probe_id("used_pages_checked_against_measured_slab_sizes_at_end"); P_reuse_checked = probe_id("end_of_run_reuse_test(all_slab_capacity_refilled_without_map)");
		P_huge_maps = probe_id("huge:map_of_1GiB_or_more(reserved_address_space)"); P_huge_blocks = probe_id("huge:block_of_2^31_bytes_or_more_live"); P_huge_realloc_grow = probe_id("huge:realloc_grew_a_block_to_2^31_bytes_or_more"); P_huge_realloc_clamped = probe_id("huge:realloc_of_a_huge_block_clamped_to_64_bytes"); P_huge_lazy = probe_id("huge:page_committed_on_first_touch_by_the_pool"); P_subpage_base = probe_id("unaligned_map_returned_a_base_that_is_not_page_aligned"); P_mass = probe_id("mass_op:more_than_65535_blocks_live_in_one_slab"); P_mass_blocks = probe_id("mass_op:blocks_allocated"); P_trace_records = probe_id("trace_records_emitted(policy_with_tracing_hooks;content_not_judged)"); P_full_fill = probe_id("large_block_written_and_verified_in_full(half_of_them_all_zero)"); P_long_churn2 = probe_id("long_churn_over_131072_allocations_of_the_largest_class");
	}
	const char *name() override { return "simslab"; }
	const char *op_name(int k) override { return k >= 0 && k < OP_N ? op_names[k] : "?"; }
	int op_kind(const std::string &n) override { for (int i = 0; i < OP_N; i++) if (n == op_names[i]) return i; return -1; }
	const char *cfg_name(int c) override {
		static std::string s[PC_N * MT_N];
		static const char *mn[] = {"SimMutex", "ticket_spinlock", "simple_spinlock"};
		if (c < 0 || c >= PC_N * MT_N) return "?";
		if (s[c].empty()) {
			const PolicyInfo &q = policy_info[c / MT_N]; char b[260];
			snprintf(b, sizeof b, "%s:%s%s,page 0x%zx%s,slab 0x%zx%s,sb 0x%zx%s,%d buckets%s / %s", q.name, q.aligned ? "aligned" : "unaligned", q.poison ? ",poison" : "", q.pagesize, q.d_page ? "" : "(default)", q.slabsize, q.d_slab ? "" : "(default)", q.sb_size, q.d_sb ? "" : "(default)", q.num_buckets, q.d_nb ? "" : "(default)", mn[c % MT_N]);
			s[c] = b;
		}
		return s[c].c_str();
	}
	const char *property_of(const std::string &cls, const std::string &prof) override {
		static const char *c01[] = {"overlap", "outside_mapping", "misaligned", "too_small", "size_changed", "pool_write_into_live_block", "null_without_fault", nullptr};
		static const char *c02[] = {"content_changed", "realloc_prefix", "realloc_semantics", "footprint", "null_free_side_effect", nullptr};
		static const char *c03[] = {"unmap_mismatch", "unmap_live", "double_unmap", "large_not_returned", "page_counter", "not_unpoisoned", "not_repoisoned", "pool_touches_poisoned_byte", "pool_touches_unmapped_byte", nullptr};
		static const char *c04[] = {"mapfail_not_null", "mapfail_side_effect", "mapfail_lock_left", "mapfail_leak", "no_recovery", nullptr};
		static const char *c05[] = {"policy_called_with_lock", "data_race", "deadlock", "self_deadlock", "unlock_by_non_owner", "no_progress", nullptr};
		for (int i = 0; c01[i]; i++) if (cls == c01[i]) return "C01";
		for (int i = 0; c02[i]; i++) if (cls == c02[i]) return "C02";
		for (int i = 0; c03[i]; i++) if (cls == c03[i]) return "C03";
		for (int i = 0; c04[i]; i++) if (cls == c04[i]) return "C04";
		for (int i = 0; c05[i]; i++) if (cls == c05[i]) return "C05";
		static std::string p; p = prof; return p.c_str(); // panic / crash: attributed to the profile's property
	}
	void describe(std::map<std::string, std::string> &kv) override {
		kv["real_code"] = "frg::slab_pool<Policy,Mutex> (allocate, realloc, free, deallocate, get_size, numUsedPages), frg::rbtree (partial-slab tree), frg::unique_lock, frg::ticket_spinlock / simple_spinlock when selected — unmodified headers, TSan-ABI instrumented";
		kv["stubs"] = "SimPolicy (map/unmap/poison hooks: placement, alignment residue, garbage fill, failure injection, shadow memory), SimMutex when selected, the user filling and verifying its blocks";
	}

	// ------------------------------------------------------------ generation
	static size_t class_size(int i) { return i < 3 ? (size_t)8 << i : (size_t)64 << (i - 3); }
	size_t gen_size(Rng &rng, const PolicyInfo &p, int focus_cls, bool allow_large) {
		// the property quantifies over request sizes from 0 up to several superblocks
		size_t n = gen_size_raw(rng, p, focus_cls, allow_large);
		size_t cap = class_size(p.num_buckets - 1) + 5 * std::min<size_t>(p.sb_size, 1 << 22); // (a geometry with gigabyte superblocks: "several superblocks" is taken as several MiB)
		if (n > cap) n = n > (size_t)1 << 62 ? 0 : cap; // (wrapped negative -> 0)
		return n;
	}
	size_t gen_size_raw(Rng &rng, const PolicyInfo &p, int focus_cls, bool allow_large) {
		size_t maxs = class_size(p.num_buckets - 1);
		int r = (int)rng.below(100);
		if (focus_cls >= 0 && r < 55) { size_t c = class_size(focus_cls); size_t lo = focus_cls ? class_size(focus_cls - 1) + 1 : 0; return lo + rng.below(c - lo + 1); }
		if (r < 5) return rng.below(2);
		if (r < 45) { size_t c = class_size((int)rng.below(p.num_buckets)); int d = (int)rng.below(3) - 1; if (c + d > maxs && !allow_large) d = 0; return c + d; }
		if (r < 55) return 1 + rng.below(maxs);
		if (!allow_large) return 1 + rng.below(maxs);
		if (r < 65) return maxs + (int)rng.below(3) - 1;
		if (r < 80) { size_t k = 1 + rng.below(6); return k * p.pagesize + (int)rng.below(3) - 1; }
		size_t sbs = std::min<size_t>(p.sb_size, 1 << 22);
		if (r < 90) { size_t k = 1 + rng.below(3); return k * sbs + (int)rng.below(3) - 1 - (rng.chance(1, 2) ? p.pagesize : 0); }
		return maxs + 1 + rng.below(4 * sbs);
	}

	void generate(Rng &rng, Plan &p, const std::string &prof, int tier) override {
		int c = (int)rng.below(100);
		int polc;
		{ // weighted choice over all compiled geometries: the two 256 KiB-slab defaults are expensive, poison matters most for C03
			int w[PC_N], tot = 0;
			for (int i = 0; i < PC_N; i++) { w[i] = policy_info[i].slabsize >= 0x20000 ? 5 : 10; if (prof == "C03" && policy_info[i].poison) w[i] *= 2; tot += w[i]; }
			int r = (int)rng.below(tot); polc = 0;
			for (int i = 0; i < PC_N; i++) { if (r < w[i]) { polc = i; break; } r -= w[i]; }
			(void)c;
		}
		int m = (int)rng.below(100);
		int mtx = m < 50 ? MT_SIM : m < 78 ? MT_TICKET : MT_SIMPLE;
		if (p.knobs.count("force_cfg")) { polc = (int)p.knobs["force_cfg"] / MT_N; mtx = (int)p.knobs["force_cfg"] % MT_N; }
		p.cfg = polc * MT_N + mtx;
		const PolicyInfo &P = policy_info[polc];
		// the geometry is recorded by value so that a replay finds it even if the compiled list differs
		// (declared values: 0 = the policy does not declare that constant)
		p.knobs["g_page"] = (int64_t)P.d_page; p.knobs["g_slab"] = (int64_t)P.d_slab; p.knobs["g_sb"] = (int64_t)P.d_sb; p.knobs["g_nb"] = P.d_nb; p.knobs["g_al"] = P.aligned; p.knobs["g_po"] = P.poison;
		bool multi;
		if (prof == "C05") multi = true;
		else if (prof == "C04") multi = rng.chance(35, 100);
		else if (prof == "C02") multi = rng.chance(15, 100);
		else multi = rng.chance(30, 100);
		p.ntasks = multi ? 2 + (int)rng.below(prof == "C05" ? 7 : 3) : 1;
		if (prof == "C05" && p.ntasks > 4 && rng.chance(1, 2)) p.ntasks = 2 + (int)rng.below(3);
		bool big_slabs = P.slabsize >= 0x20000;
		int maxops = tier ? 60 : 28;
		if (p.ntasks >= 5) maxops = tier ? 24 : 12;
		int focus = (prof == "C05" || rng.chance(1, 2)) ? (int)rng.below(big_slabs ? 4 + P.num_buckets - 4 : P.num_buckets) : -1;
		if (big_slabs && focus >= 0 && focus < 3 && rng.chance(2, 3)) focus += 3; // 8..32-byte classes of a 256 KiB slab cost 10^4 hooks per slab
		bool allow_large = prof != "C05" || rng.chance(1, 3);
		p.knobs["cap1"] = 3000000; p.knobs["tier"] = tier;
		int hbase = 0;
		std::vector<int> next_id(p.ntasks + 1, 0);
		// handles are partitioned between tasks at generation; give/take moves them at run time
		for (int t = 1; t <= p.ntasks; t++) {
			int nh = std::max(2, NH / p.ntasks); if (nh > 12) nh = 12;
			int n = 3 + (int)rng.below(maxops);
			int burst_left = 0; int64_t burst_size = 16;
			for (int i = 0; i < n; i++) {
				Op o; o.task = t; o.id = next_id[t]++;
				int h = hbase + (int)rng.below(nh);
				o.a[0] = h;
				int r = (int)rng.below(100);
				int w_alloc = 34, w_free = 20, w_dealloc = 5, w_realloc = 14, w_rn = 3, w_rz = 3, w_fn = 2, w_gs = 4, w_ver = 4, w_give = 0, w_take = 0, w_pages = 3, w_churn = 0;
				if (prof == "C02") { w_realloc = 28; w_alloc = 26; w_churn = p.ntasks == 1 ? 6 : 0; }
				if (prof == "C03") { w_pages = 6; }
				if (p.ntasks > 1) { w_give = 7; w_take = 7; w_pages = 0; }
				int w_bulk = (prof == "C05") ? 1 : 3;
				int tot = w_alloc + w_free + w_dealloc + w_realloc + w_rn + w_rz + w_fn + w_gs + w_ver + w_give + w_take + w_pages + w_churn + w_bulk;
				r = (int)rng.below(tot);
				auto pick = [&](int w) { if (r < w) return true; r -= w; return false; };
				if (pick(w_alloc)) { o.kind = OP_ALLOC; o.a[1] = (int64_t)gen_size(rng, P, focus, allow_large); }
				else if (pick(w_free)) o.kind = OP_FREE;
				else if (pick(w_dealloc)) { o.kind = OP_DEALLOC; o.a[1] = (int64_t)rng.below(1000); }
				else if (pick(w_realloc)) { o.kind = OP_REALLOC; o.a[1] = (int64_t)gen_size(rng, P, focus, allow_large); if (o.a[1] == 0) o.a[1] = 1; }
				else if (pick(w_rn)) { o.kind = OP_REALLOC_NULL; o.a[1] = (int64_t)gen_size(rng, P, focus, allow_large); }
				else if (pick(w_rz)) o.kind = OP_REALLOC_ZERO;
				else if (pick(w_fn)) { o.kind = OP_FREE_NULL; o.a[1] = rng.below(3); }
				else if (pick(w_gs)) o.kind = OP_GETSIZE;
				else if (pick(w_ver)) o.kind = OP_VERIFY;
				else if (pick(w_give)) o.kind = OP_GIVE;
				else if (pick(w_take)) { o.kind = OP_TAKE; o.a[0] = (int)rng.below(std::min(NH, nh * p.ntasks)); o.a[1] = rng.below(4); o.a[2] = (int64_t)gen_size(rng, P, focus, allow_large); }
				else if (pick(w_pages)) o.kind = OP_PAGES;
				else if (pick(w_bulk)) {
					// fill whole slabs of one class: count is chosen around the number of objects that fit in one or two slabs
					o.kind = OP_BULK;
					int ci = (int)rng.below(P.num_buckets); if (big_slabs && ci < 4) ci = 4 + (int)rng.below(P.num_buckets - 4);
					size_t cs = class_size(ci); size_t per = P.slabsize / cs;
					size_t cnt = per * (1 + rng.below(2)) + rng.below(8) - (rng.chance(1, 2) ? 4 : 0);
					if (cnt < 3) cnt = 3; if (cnt > (size_t)(tier ? 4000 : 1100)) cnt = tier ? 4000 : 1100;
					if (p.ntasks > 1 && cnt > 300) cnt = 300;
					o.a[1] = (int64_t)(cs - rng.below(cs / 2 + 1)); if (o.a[1] < 1) o.a[1] = 1;
					o.a[2] = (int64_t)cnt; o.a[3] = rng.below(4);
					if (allow_large && rng.chance(1, 8)) { o.a[1] = (int64_t)(class_size(P.num_buckets - 1) + 1 + rng.below(3 * P.pagesize)); o.a[2] = 4 + rng.below(40); } // many large frames at once
					if (rng.chance(2, 5)) {
						// many slabs of one class made partial in a chosen address order: exercises the partial-slab tree
						// (insertions in descending / ascending / random order, then repeated removal of the minimum)
						size_t K = 3 + rng.below(tier ? 22 : 10);
						size_t lim = (size_t)(tier ? 4000 : 1100); if (p.ntasks > 1) lim = 300;
						while (K > 2 && per * K > lim) K--;
						if (per * K <= lim) { o.a[2] = (int64_t)(per * K); o.a[3] = 4 + rng.below(3); }
					} else if (rng.chance(1, 5)) { o.a[3] = 7; o.a[2] = 60 + rng.below(tier ? 1200 : 400); if (p.ntasks > 1 && o.a[2] > 200) o.a[2] = 200; } // many live blocks across ALL classes at once
				}
				else { o.kind = OP_CHURN; o.a[1] = (int64_t)gen_size(rng, P, focus, false); o.a[2] = tier ? 50 + rng.below(3000) : 10 + rng.below(300); o.a[3] = 1 + rng.below(6);
					if (rng.chance(1, tier ? 40 : 150)) { o.a[2] = 66000 + rng.below(3000); o.a[3] = 1 + rng.below(2); o.a[1] = (int64_t)class_size((int)rng.below(3)); } // a counter that only wraps after 2^16 allocations
					else if (rng.chance(1, tier ? 400 : 1500)) { o.a[2] = 131072 + 30 + rng.below(2000); o.a[3] = 1; o.a[1] = (int64_t)class_size(P.num_buckets - 1); p.knobs["cap1"] = 90000000; } } // 2^17 cycles through ONE slab of the largest class: 2^32 bytes handed out by it (a per-slab quantity kept in bytes in 32 bits)
				if (!P.aligned || rng.chance(2, 3)) o.place = (uint32_t)rng.next() | 1;
				if ((prof == "C04" && rng.chance(1, 12)) || (prof != "C04" && prof != "C02" && rng.chance(1, 60))) o.mapfail = 1u << rng.below(2);
				if (prof == "C04" && burst_left > 0 && (o.kind == OP_ALLOC || o.kind == OP_REALLOC_NULL)) { o.mapfail = 1 | NORETRY; o.a[1] = burst_size; burst_left--; }
				else if (prof == "C04" && burst_left == 0 && rng.chance(1, 25)) { burst_left = 2 + (int)rng.below(7); burst_size = (int64_t)gen_size(rng, P, focus, false); } // 2..8 consecutive failures for one class
				if (prof == "C04" && o.kind == OP_BULK && rng.chance(1, 6)) o.mapfail = ((1u << (1 + rng.below(8))) - 1) << rng.below(3) | NORETRY;
				p.ops.push_back(o);
			}
			hbase += nh;
		}
		// a slab that can hold more than 65535 objects of the smallest class gets, now and then, more than 65535 of them live at once
		// (a per-slab count kept in 16 bits is the mistake this is after); one such op costs ~10^7 steps, so it is rare
		if (p.ntasks == 1 && P.slabsize / 8 > 66000 && prof != "C04") {
			Rng mr; mr.seed(p.seed ^ 0x4d415353ull);
			if (mr.chance(1, tier ? 6 : 10)) {
				Op o; o.task = 1; o.id = next_id[1]++; o.kind = OP_MASS; o.a[0] = 0; o.a[1] = 8 - (int64_t)mr.below(8); o.a[2] = 65537 + (int64_t)mr.below(NMASS - 65537); o.a[3] = (int64_t)mr.below(3);
				p.ops.insert(p.ops.begin() + (long)mr.below(p.ops.size() + 1), o);
				p.knobs["cap1"] = 60000000;
			}
		}
		{ // requests of 2^31 bytes and more (C02/C03: all sizes), drawn from a separate stream so that the other plans of a seed are unchanged
			Rng hr; hr.seed(p.seed ^ 0x48554745ull);
			if (hr.chance(1, prof == "C05" ? 25 : 10)) {
				std::vector<size_t> cand;
				for (size_t i = 0; i < p.ops.size(); i++) if (p.ops[i].kind == OP_ALLOC || p.ops[i].kind == OP_REALLOC_NULL || p.ops[i].kind == OP_REALLOC) cand.push_back(i);
				int k = 1 + (int)hr.below(2);
				while (k-- && !cand.empty()) {
					Op &o = p.ops[cand[hr.below(cand.size())]];
					static const uint64_t bases[] = {1ull << 31, 1ull << 32, 1ull << 32, 1ull << 32, (1ull << 32) + (1ull << 31), 1ull << 33};
					uint64_t b = bases[hr.below(6)]; int64_t d;
					switch (hr.below(6)) { case 0: d = 0; break; case 1: d = -1; break; case 2: d = 1 + (int64_t)hr.below(200); break; case 3: d = -(int64_t)P.pagesize - (int64_t)hr.below(3); break; case 4: d = (int64_t)P.pagesize + (int64_t)hr.below(3) - 1; break; default: d = (int64_t)hr.below(3 * std::min<size_t>(P.sb_size, 1 << 22)) - (int64_t)std::min<size_t>(P.sb_size, 1 << 22); break; }
					o.a[1] = (int64_t)(b + (uint64_t)d);
					if (o.mapfail && hr.chance(2, 3)) o.mapfail = 0;
				}
			}
		}
		if (mtx == MT_TICKET && rng.chance(1, 3)) p.knobs["age"] = (int64_t)((rng.chance(1, 2) ? 0xFFFFFFFFu : 0x7FFFFFFFu) - (uint32_t)rng.below(6)); // aged bucket locks: counters wrap during the run
		if (rng.chance(1, 5)) p.knobs["reuse_check"] = 1; // end-of-run reuse test
		if (P.poison && rng.chance(1, 2)) p.knobs["granule"] = 1; // KASAN-like policy: poison shadow with 8-byte granules
		pick_strategy(rng, p, mtx != MT_SIM && prof == "C05");
	}

	// ------------------------------------------------------------ poison state (byte array for the arena, interval set for the tail)
	void tail_sub(uint64_t o, uint64_t e) {
		auto &m = tail_unpoisoned;
		auto it = m.lower_bound(o);
		if (it != m.begin()) { auto pv = std::prev(it); if (pv->second > o) { uint64_t pe = pv->second; pv->second = o; if (pe > e) { m[e] = pe; return; } } }
		while (it != m.end() && it->first < e) { uint64_t pe = it->second; it = m.erase(it); if (pe > e) { m[e] = pe; break; } }
	}
	void tail_add(uint64_t o, uint64_t e) {
		auto &m = tail_unpoisoned;
		auto it = m.upper_bound(o);
		if (it != m.begin()) { auto pv = std::prev(it); if (pv->second >= o) { o = pv->first; e = std::max(e, pv->second); it = m.erase(pv); } }
		while (it != m.end() && it->first <= e) { e = std::max(e, it->second); it = m.erase(it); }
		m[o] = e;
	}
	bool ps_any(uint64_t o, size_t n, int val) { // does [o, o+n) contain a byte in state val (1 poisoned, 0 unpoisoned)?
		if (!n) return false;
		if (o < arena_size) return memchr(pshadow + o, val, n) != nullptr;
		auto &m = tail_unpoisoned; uint64_t e = o + n;
		auto it = m.upper_bound(o);
		if (it != m.begin()) { auto pv = std::prev(it); if (pv->second > o) return val == 0 ? true : pv->second < e; } // intervals are coalesced: beyond its end lies a poisoned byte
		if (val == 1) return true; // o itself is poisoned
		return it != m.end() && it->first < e;
	}
	void ps_set(uint64_t o, size_t n, int val) {
		if (!n) return;
		if (o < arena_size) { memset(pshadow + o, val, n); return; }
		if (val) tail_sub(o, o + n); else tail_add(o, o + n);
	}
	bool in_policy(const void *p) { return (in_arena(p) && off(p) >= policy_base) || (tail_ok && in_tail(p)); }
	// tail memory is reserved, not accessible: make the pages of [p, p+n) usable (no-op for arena addresses)
	void ensure_rw(const void *p, size_t n) {
		if (!n || !in_tail(p)) return;
		uintptr_t a = (uintptr_t)p & ~(uintptr_t)4095, e = ((uintptr_t)p + n + 4095) & ~(uintptr_t)4095;
		if (mprotect((void *)a, e - a, PROT_READ | PROT_WRITE)) { perror("mprotect tail"); exit(3); }
		tail_dirty = true;
	}

	// The pool may legitimately touch any byte of a region it has mapped (a footer, a guard word, zeroing): a fault inside a
	// currently mapped tail region commits that page (fresh zero page, deterministic); anywhere else in the tail it is a
	// stray access and stays a crash. More than 32 MiB per run of such pages ends the run without a verdict.
	int tail_faults = 0;
	std::vector<std::pair<uint64_t, uint64_t>> calib_regions; uint64_t calib_tail_top = 0;
	void ensure_tail() {
		static int tail_state = 0; // 1 reserved, -1 the address range behind the arena is not free: huge requests fail like an exhausted arena
		if (!tail_state) {
			void *w = arena + arena_size;
			void *r = mmap(w, TAIL_SIZE, PROT_NONE, MAP_PRIVATE | MAP_ANONYMOUS | MAP_NORESERVE | MAP_FIXED_NOREPLACE, -1, 0);
			tail_state = r == w ? 1 : -1;
			if (r != w && r != MAP_FAILED) munmap(r, TAIL_SIZE);
		}
		tail_ok = tail_state == 1; aux_bytes = tail_ok ? TAIL_SIZE : 0;
	}
	void reset_tail() { if (tail_ok && tail_dirty) { mmap(arena + arena_size, TAIL_SIZE, PROT_NONE, MAP_PRIVATE | MAP_ANONYMOUS | MAP_NORESERVE | MAP_FIXED, -1, 0); tail_dirty = false; } }
	int on_fault(void *addr) override {
		if (!tail_ok || !in_tail(addr)) return 0;
		if (calibrating) { // (geometries whose superblocks are gigabytes: even the calibration pools live in the tail)
			bool in = false; uint64_t o = off(addr); for (auto &cr : calib_regions) if (o >= cr.first && o < cr.first + cr.second) in = true;
			if (!in || ++tail_faults > 65536) return 0;
			tail_dirty = true;
			return mprotect((void *)((uintptr_t)addr & ~(uintptr_t)4095), 4096, PROT_READ | PROT_WRITE) ? 0 : 1;
		}
		if (!find_region(off(addr))) return 0;
		if (++tail_faults > 8192) return 2;
		uintptr_t a = (uintptr_t)addr & ~(uintptr_t)4095;
		if (mprotect((void *)a, 4096, PROT_READ | PROT_WRITE)) return 0;
		tail_dirty = true; probe(P_huge_lazy);
		return 1;
	}

	// ------------------------------------------------------------ policy
	Region *find_region(uint64_t o) {
		auto it = std::upper_bound(regions.begin(), regions.end(), o, [](uint64_t v, const Region &r) { return v < r.base; });
		if (it == regions.begin()) return nullptr;
		--it;
		return (o < it->base + it->len) ? &*it : nullptr;
	}

	uintptr_t do_map(size_t len, size_t align) {
		if (calibrating) {
			calib_maps++;
			size_t a = align ? align : pi.pagesize;
			if (len >= HUGE_MIN) { // reserved address space, committed on first touch (on_fault)
				ensure_tail(); if (!tail_ok) return 0;
				uint64_t al = std::min<uint64_t>(a, 1 << 20), b = (calib_tail_top + al - 1) & ~(al - 1);
				if (b + len > arena_size + TAIL_SIZE - (1 << 20)) return 0;
				calib_tail_top = b + len + (1 << 16); calib_regions.push_back({b, len});
				return (uintptr_t)(arena + b);
			}
			calib_top = (calib_top + a - 1) & ~(uint64_t)(a - 1);
			uint64_t b = calib_top; calib_top += len;
			if (calib_top > policy_top) return 0;
			return (uintptr_t)(arena + b);
		}
		int me = cur_task();
		Cur &c = cur[me];
		sync_hook();
		probe(P_maps); total_maps++;
		logev(0x4001, len, align);
		if (locks_held(me) > 0) violation("policy_called_with_lock", "Policy::map(%zu) called by task %d while it holds %d pool lock(s)", len, me, locks_held(me));
		c.map_calls++;
		int j = c.op_maps++; // index of this map call within the whole plan op (a bulk/churn op makes many pool calls)
		if (cur_plan && me >= 1) map_sites.push_back({(int)((me << 20) | cur_opid()), j});
		if (j < 31 && (c.mapfail & (1u << j)) && !fair_phase_retry) {
			c.failed_any = true; c.failed_injected = true; probe(P_mapfail_injected); count_fault(FK_MAPFAIL);
			for (int t = 1; t < MAXT; t++) if (t != me && locks_held(t) > 0) { probe(P_mapfail_while_other_holds); break; }
			logev(0x4002, 0, 0);
			return 0;
		}
		// placement
		size_t pg = pi.pagesize;
		uint64_t want_res = 0;
		if (!align && c.place) {
			uint64_t h = splitmix(c.place, (uint64_t)j);
			switch (h & 3) { case 0: want_res = 0; break; case 1: want_res = pg; break; case 2: want_res = ((h >> 8) % (pi.sb_size / pg)) * pg; break; default: want_res = pi.sb_size - pg; break; }
			// an unaligned map() owes the pool no alignment at all, not even to pages (a bump or boot-time arena): 64-byte granularity sometimes
			if (((h >> 24) & 3) == 0) { want_res += 64 * (1 + (h >> 32) % (pg / 64 - 1)); probe(P_subpage_base); }
		}
		size_t a = align ? align : pg;
		if (len >= HUGE_MIN) {
			// reserved address space only: the head (frame header, first pages of the block) is made accessible and filled
			uint64_t cand = (tail_top + a - 1) & ~(uint64_t)(a - 1);
			if (!align) { uint64_t al = std::min<uint64_t>(pi.sb_size, 1 << 20); cand = ((tail_top + al - 1) & ~(al - 1)) + want_res % ((uint64_t)16 << 20); } // (the pool aligns inside the region itself)
			if (!tail_ok || cand + len > arena_size + TAIL_SIZE - (1 << 20)) { probe(P_arena_exhausted); c.failed_any = true; return 0; }
			probe(P_huge_maps);
			if (!align && want_res) { probe(P_unaligned_slack); count_fault(FK_PLACEMENT); }
			tail_top = ((cand + len + 4095) & ~4095ull) + (1 << 16); // an inaccessible gap follows every huge region
			Region r{cand, len, 1, 0, me, cur_opid(), 0, false};
			regions.insert(std::upper_bound(regions.begin(), regions.end(), cand, [](uint64_t v, const Region &x) { return v < x.base; }), r);
			c.maps_ok++; c.mapped_bases.push_back(cand);
			char *p = arena + cand;
			// (a copying realloc into the new block copies the old block's whole capacity: at most the generator's size cap, rounded)
			size_t head = std::min<uint64_t>(len, 8 * std::min<uint64_t>(pi.sb_size, 1 << 20) + class_size(pi.num_buckets - 1) + 8 * pg + (1 << 16));
			ensure_rw(p, head);
			uint64_t g = fill_rng().next();
			uint64_t fm = c.place ? splitmix(c.place, 999 + (uint64_t)j) & 7 : 2;
			if (fm == 0) memset(p, 0, head); else if (fm == 1) memset(p, 0xFF, head);
			else for (size_t i = 0; i + 8 <= head; i += 8) { uint64_t v = g ^ (i * 0x9e3779b97f4a7c15ull); memcpy(p + i, &v, 8); }
			if (pi.poison) ps_set(cand, len, 1);
			return (uintptr_t)p;
		}
		// placement mode (a per-op fault knob): lowest fitting address, or top-down (new regions BELOW the existing ones:
		// the pool orders its slabs by address), or a hole further up (regions no longer adjacent); plus zero-filled
		// instead of garbage-filled memory sometimes (code must not rely on either)
		int pmode = c.place ? (int)((splitmix(c.place, 77 + (uint64_t)j) >> 7) % 4) : 0; // 0,1 low  2 high  3 skip-ahead
		uint64_t hi_limit = policy_base + ((uint64_t)12 << 20) + 6 * (uint64_t)pi.sb_size; // a modest window: the working set (and its 8x shadow) must stay cache- and TLB-friendly
		if (hi_limit > policy_top) hi_limit = policy_top;
		auto fit_low = [&](uint64_t from, uint64_t gap_end) -> uint64_t {
			uint64_t cand = (from + a - 1) & ~(uint64_t)(a - 1);
			if (!align) { uint64_t base_sb = cand & ~(uint64_t)(pi.sb_size - 1); cand = base_sb + want_res; if (cand < from) cand += pi.sb_size; }
			return cand + len <= gap_end ? cand : 0;
		};
		auto fit_high = [&](uint64_t from, uint64_t gap_end) -> uint64_t {
			if (gap_end < from + len) return 0;
			uint64_t cand = (gap_end - len) & ~(uint64_t)(a - 1);
			if (!align) { uint64_t base_sb = cand & ~(uint64_t)(pi.sb_size - 1); cand = base_sb + want_res; if (cand + len > gap_end) { if (cand < pi.sb_size) return 0; cand -= pi.sb_size; } }
			return cand >= from && cand + len <= gap_end ? cand : 0;
		};
		uint64_t found = 0;
		if (pmode == 2) { // top-down
			uint64_t end = hi_limit;
			for (size_t k = regions.size() + 1; k-- > 0 && !found;) {
				uint64_t from = k ? regions[k - 1].base + regions[k - 1].len : policy_base;
				if (from < end) found = fit_high(from, end);
				if (k) end = std::min(end, regions[k - 1].base);
			}
			if (found) count_fault(FK_PLACEMENT);
		}
		if (!found) {
			uint64_t pos = policy_base + (pmode == 3 ? (uint64_t)pi.sb_size * (1 + (splitmix(c.place, (uint64_t)j) >> 11) % 5) : 0);
			size_t ri = 0;
			while (ri < regions.size() && regions[ri].base + regions[ri].len <= pos) ri++;
			if (ri < regions.size() && regions[ri].base < pos) { pos = regions[ri].base + regions[ri].len; ri++; }
			while (true) {
				uint64_t gap_end = ri < regions.size() ? std::min(regions[ri].base, policy_top) : policy_top;
				if (pos < gap_end) found = fit_low(pos, gap_end);
				if (found || ri >= regions.size()) break;
				pos = std::max(pos, regions[ri].base + regions[ri].len); ri++;
			}
		}
		if (!found) { probe(P_arena_exhausted); c.failed_any = true; return 0; }
		if (!align && want_res) { probe(P_unaligned_slack); count_fault(FK_PLACEMENT); }
		Region r{found, len, 0, 0, me, cur_opid(), 0, false};
		regions.insert(std::upper_bound(regions.begin(), regions.end(), found, [](uint64_t v, const Region &x) { return v < x.base; }), r);
		c.maps_ok++; c.mapped_bases.push_back(found);
		// fresh memory: garbage, poisoned (poison configs), no access history
		char *p = arena + found;
		uint64_t g = fill_rng().next();
		uint64_t fm = c.place ? splitmix(c.place, 999 + (uint64_t)j) & 7 : 2;
		if (fm == 0) memset(p, 0, len);          // zero pages, like a fresh mmap
		else if (fm == 1) memset(p, 0xFF, len);  // all-ones: an uninitialised counter that is then incremented wraps to zero
		else for (size_t i = 0; i + 8 <= len; i += 8) { uint64_t v = g ^ (i * 0x9e3779b97f4a7c15ull); memcpy(p + i, &v, 8); }
		if (pi.poison) memset(pshadow + found, 1, len);
		shadow_reset(p, len);
		return (uintptr_t)p;
	}

	void do_unmap(uintptr_t base, size_t len) {
		if (calibrating) { calib_unmaps++; return; }
		int me = cur_task();
		Cur &c = cur[me];
		sync_hook();
		probe(P_unmaps);
		logev(0x4003, base ? off((void *)base) : 0, len);
		if (locks_held(me) > 0) violation("policy_called_with_lock", "Policy::unmap called by task %d while it holds %d pool lock(s)", me, locks_held(me));
		if (!in_policy((void *)base)) violation("unmap_mismatch", "unmap(base %p, %zu): base is not an address map() returned", (void *)base, len);
		uint64_t o = off((void *)base);
		Region *r = find_region(o);
		if (!r || r->base != o || r->len != len) {
			for (auto &u : unmapped_hist) if (u.base == o && u.len == len) violation("double_unmap", "unmap(+0x%llx, %zu) for a region that was already unmapped", (unsigned long long)o, len);
			if (r) violation("unmap_mismatch", "unmap(+0x%llx, %zu) does not match the mapping it lies in: map returned +0x%llx for a request of %llu bytes", (unsigned long long)o, len, (unsigned long long)r->base, (unsigned long long)r->len);
			violation("unmap_mismatch", "unmap(+0x%llx, %zu): nothing is mapped there", (unsigned long long)o, len);
		}
		// no live user block inside
		auto it = live_by_addr.lower_bound(o);
		if (it != live_by_addr.begin()) { auto pv = std::prev(it); Block &b = blk[pv->second]; if (pv->first + b.reported > o && !b.inflight) it = pv; }
		for (; it != live_by_addr.end() && it->first < o + len; ++it) {
			Block &b = blk[it->second];
			if (b.inflight && b.owner == me) continue;
			violation("unmap_live", "unmap(+0x%llx, %zu) while live block #%d (+0x%llx, %zu bytes) lies inside", (unsigned long long)o, len, it->second, (unsigned long long)it->first, b.reported);
		}
		Region copy = *r;
		c.unmaps++; c.unmapped.push_back(copy);
		unmapped_hist.push_back(copy); if (unmapped_hist.size() > 64) unmapped_hist.erase(unmapped_hist.begin());
		regions.erase(regions.begin() + (r - &regions[0]));
		if (copy.base >= arena_size) { // a returned huge reservation is inaccessible again
			uintptr_t a = (uintptr_t)(arena + copy.base) & ~(uintptr_t)4095, e = ((uintptr_t)(arena + copy.base) + copy.len + 4095) & ~(uintptr_t)4095;
			mmap((void *)a, e - a, PROT_NONE, MAP_PRIVATE | MAP_ANONYMOUS | MAP_NORESERVE | MAP_FIXED, -1, 0);
			tail_sub(copy.base, copy.base + copy.len);
			bool top = true; for (auto &x : regions) if (x.base > copy.base) top = false;
			if (top) tail_top = std::max<uint64_t>(arena_size + (1 << 20), (copy.base & ~4095ull)); // the highest region went away: its address space is handed out again
		}
	}

	void do_poison(int kind, void *p, size_t n) {
		if (calibrating || !n) return;
		sync_hook(); // a call into the policy is a visible action: other tasks may run between the pool's last lock operation / access and this call
		if (!in_policy(p)) violation("pool_touches_unmapped_byte", "poison hook called on %p which is outside the policy's memory", p);
		uint64_t o = off(p);
		Region *r = find_region(o);
		if (!r || o + n > r->base + r->len) violation("pool_touches_unmapped_byte", "poison/unpoison of +0x%llx..+%zu which is not inside one mapped region", (unsigned long long)o, n);
		logev(0x4010 + kind, o, n);
		if (kind == 0) { // the pool may not take away bytes somebody is using: poisoning inside the requested bytes of a live block (not the one this call works on)
			auto it = live_by_addr.upper_bound(o + n - 1);
			if (it != live_by_addr.begin()) { --it; Block &x = blk[it->second]; if (!x.inflight && x.req && it->first + x.req > o) violation("not_unpoisoned", "pool code (task %d) poisons +0x%llx (%zu bytes) inside the requested bytes of live block #%d [+0x%llx, +%zu) owned by task %d", cur_task(), (unsigned long long)o, n, it->second, (unsigned long long)it->first, x.req, x.owner); }
		}
		if (granule) {
			// a shadow with 8-byte granules (KASAN): a granule is either invalid or valid up to some byte, so poisoning from
			// the middle of a granule invalidates the whole granule, and both calls extend to the end of the last granule
			uint64_t e = (o + n + 7) & ~7ull; if (e > r->base + r->len) e = r->base + r->len;
			if (kind == 0) { uint64_t s = o & ~7ull; ps_set(s, e - s, 1); }
			else { ps_set(o, n, 0); if (e > o + n) ps_set(o + n, e - (o + n), 1); }
			return;
		}
		if (kind == 0) { if (ps_any(o, n, 1)) probe(P_poison_redundant); ps_set(o, n, 1); }
		else { if (kind == 1 && ps_any(o, n, 0)) probe(P_unpoison_redundant); ps_set(o, n, 0); }
	}

	bool fair_phase_retry = false, granule = false;
	uint64_t last_touched = 0; // arena offset of the block the current pool call returned or released

	void on_access(int task, const void *addr, size_t n, bool write, bool atomic) override {
		uint64_t o = off(addr);
		if (o < policy_base || calibrating) return;
		Region *r = find_region(o);
		if (!r || o + n > r->base + r->len)
			violation("pool_touches_unmapped_byte", "pool code %s +0x%llx (%zu bytes) which is not inside memory currently mapped by the policy", write ? "writes" : "reads", (unsigned long long)o, n);
		if (pi.poison && ps_any(o, n, 1)) {
			size_t i = 0; while (i < n && !ps_any(o + i, 1, 1)) i++;
			violation("pool_touches_poisoned_byte", "pool code %s %zu byte(s) at +0x%llx; byte +%zu is poisoned (region +0x%llx)", write ? "writes" : "reads", n, (unsigned long long)o, i, (unsigned long long)r->base);
		}
		if (write) {
			auto it = live_by_addr.upper_bound(o + n - 1);
			if (it != live_by_addr.begin()) {
				--it;
				Block &b = blk[it->second];
				if (it->first + b.reported > o && !b.inflight)
					violation("pool_write_into_live_block", "pool code (task %d) writes +0x%llx (%zu bytes) inside live block #%d [+0x%llx, +%zu) owned by task %d", task, (unsigned long long)o, n, it->second, (unsigned long long)it->first, b.reported, b.owner);
			}
		}
	}

	// ------------------------------------------------------------ setup
	int resolve_pc(const Plan &p) {
		int want = p.cfg / MT_N;
		if (!p.knobs.count("g_page")) return want < PC_N ? want : 0;
		for (int k = 0; k < PC_N; k++) { int i = (want + k) % PC_N; const PolicyInfo &q = policy_info[i];
			if ((int64_t)q.d_page == p.knob("g_page") && (int64_t)q.d_slab == p.knob("g_slab") && (int64_t)q.d_sb == p.knob("g_sb") && q.d_nb == p.knob("g_nb") && q.aligned == (p.knob("g_al") != 0) && q.poison == (p.knob("g_po") != 0)) return i; }
		for (int k = 0; k < PC_N; k++) { int i = (want + k) % PC_N; const PolicyInfo &q = policy_info[i]; // replay files written before partially declared policies existed recorded the values in effect
			if ((int64_t)q.pagesize == p.knob("g_page") && (int64_t)q.slabsize == p.knob("g_slab") && (int64_t)q.sb_size == p.knob("g_sb") && q.num_buckets == p.knob("g_nb") && q.aligned == (p.knob("g_al") != 0) && q.poison == (p.knob("g_po") != 0)) return i; }
		fprintf(stderr, "geometry of this plan is not compiled into this binary (page 0x%llx slab 0x%llx sb 0x%llx nb %lld): rebuild with VERIF_GEOMS\n", (long long)p.knob("g_page"), (long long)p.knob("g_slab"), (long long)p.knob("g_sb"), (long long)p.knob("g_nb"));
		exit(3);
	}
	void prepare(const Plan &p) override {
		pc = resolve_pc(p); pi = policy_info[pc];
		policy_base = (size_t)16 << 20; policy_top = arena_size - (1 << 20);
		calibrate_all();
	}
	void setup(const Plan &p) override {
		pc = resolve_pc(p); mt = p.cfg % MT_N; pi = policy_info[pc];
		api = mt == MT_SIM ? &slab_api_sim : mt == MT_TICKET ? &slab_api_ticket : &slab_api_simple;
		profile = p.profile; single = p.ntasks == 1; cur_plan = &p; calibrating = false;
		granule = p.knob("granule", 0) != 0 && policy_info[resolve_pc(p)].poison; if (granule) probe(P_granule_runs);
		faultfree = true; for (auto &o : p.ops) if (o.mapfail & ~NORETRY) faultfree = false;
		{ auto it = max_small_cache.find(pc); max_small = it != max_small_cache.end() && it->second ? it->second : class_size(pi.num_buckets - 1); }
		if (!pshadow) { pshadow = (uint8_t *)mmap(nullptr, arena_size, PROT_READ | PROT_WRITE, MAP_PRIVATE | MAP_ANONYMOUS | MAP_NORESERVE, -1, 0); }
		policy_base = (size_t)16 << 20; policy_top = arena_size - (1 << 20);
		{
			ensure_tail(); reset_tail();
			tail_top = arena_size + (1 << 20); tail_unpoisoned.clear(); tail_faults = 0;
		}
		regions.clear(); unmapped_hist.clear(); live_by_addr.clear(); map_sites.clear();
		for (int i = 0; i < slot_hi; i++) blk[i] = Block();
		slot_hi = NH + NBULK;
		for (auto &c : cur) c = Cur();
		live_cls.clear(); peak_cls.clear(); slabs_cls.clear(); total_maps = 0; fair_phase_retry = false;
		pool = obj_alloc(api->pool_size(pc), 64);
		api->construct(pc, pool);
	}

	// blocks per slab, measured once per (policy, class) with a private pool outside any run
	int64_t blocks_per_slab(uint64_t cls) {
		auto key = std::make_pair(pc, cls);
		auto it = bps_cache.find(key);
		if (it != bps_cache.end()) return it->second;
		return -1;
	}
	void calibrate_all() {
		// Runs the real pool natively (no simulation active), once per policy: the size classes, the small/large threshold,
		// the number of blocks per slab and the page count of a slab are MEASURED from behaviour, never computed from the
		// pool's private constants, so that a tree with a different (but correct) size-class scheme is judged fairly.
		if (bps_cache.count({pc, 0})) return;
		bps_cache[{pc, 0}] = 1;
		const SlabApi *a = &slab_api_ticket;
		static char poolmem[1 << 16] __attribute__((aligned(64)));
		// 1. discover the classes: a request is "small" if freeing its block does not give memory back to the policy
		std::set<uint64_t> classes; uint64_t thr = 0;
		calibrating = true; calib_top = policy_base; calib_maps = 0; calib_unmaps = 0; calib_tail_top = arena_size + (1 << 20); calib_regions.clear(); tail_faults = 0;
		a->construct(pc, poolmem);
		for (size_t n = 1; n <= pi.slabsize; n = n < 8 ? 8 : (n & (n - 1)) ? (n - 1) * 2 : n + 1) { // 1, 8, 9, 16, 17, 32, 33, ...
			void *p = a->allocate(pc, poolmem, n); if (!p) break;
			uint64_t rep = a->get_size(pc, poolmem, p);
			calib_unmaps = 0; a->free(pc, poolmem, p);
			if (calib_unmaps) break; // first large request
			classes.insert(rep); if (rep > thr) thr = rep;
		}
		calibrating = false;
		max_small_cache[pc] = thr;
		// 2. per class: blocks per slab (allocate until the second map) and the page delta of one slab
		for (uint64_t n : classes) {
			calibrating = true; calib_top = policy_base; calib_maps = 0; calib_tail_top = arena_size + (1 << 20); calib_regions.clear(); tail_faults = 0;
			if (tail_dirty) reset_tail();
			a->construct(pc, poolmem);
			int64_t cnt = 0;
			int64_t pages0 = (int64_t)a->used_pages(pc, poolmem);
			while (true) { void *p = a->allocate(pc, poolmem, n); if (!p || calib_maps >= 2) break; if (!cnt) slab_pages_cache[{pc, n}] = (int64_t)a->used_pages(pc, poolmem) - pages0; cnt++; if (cnt > (1 << 20)) break; }
			bps_cache[{pc, n}] = cnt;
			calibrating = false;
		}
	}

	// ------------------------------------------------------------ op helpers
	void begin_call(int me, const Op &op) {
		Cur &c = cur[me];
		if (cur_opid() != c.last_opid) { c.last_opid = cur_opid(); c.op_maps = 0; }
		c.map_calls = 0; c.mapfail = op.mapfail; c.place = op.place; c.failed_any = false; c.failed_injected = false; c.maps_ok = 0; c.unmaps = 0; c.mapped_bases.clear(); c.unmapped.clear();
		for (int t = 1; t < MAXT; t++) if (t != me && cur[t].inflight_h != -1) { probe(P_lock_contention); break; }
		c.inflight_h = -2; call_begin[me] = now();
	}
	void end_call(int me) {
		cur[me].inflight_h = -1;
		// quiescent instant in single-task runs: the requested bytes of EVERY live block must be unpoisoned
		if (single && pi.poison && !live_by_addr.empty()) {
			auto chk = [&](std::map<uint64_t, int>::iterator it) {
				Block &b = blk[it->second];
				if (!b.req || b.inflight) return;
				size_t head = b.req < 256 ? b.req : 256;
				if (ps_any(it->first, head, 1) || (b.req > 256 && ps_any(it->first + b.req - 64, 64, 1)))
					violation("not_unpoisoned", "after a pool call requested bytes of live block #%d (+0x%llx, %zu requested) are poisoned", it->second, (unsigned long long)it->first, b.req);
			};
			if (live_by_addr.size() <= 48) { for (auto it = live_by_addr.begin(); it != live_by_addr.end(); ++it) chk(it); }
			else { // many live blocks (bulk op): the neighbours in address order of the block this call touched are the ones at risk
				auto it = live_by_addr.lower_bound(last_touched);
				auto lo = it, hi = it;
				for (int k = 0; k < 8 && lo != live_by_addr.begin(); k++) --lo;
				for (int k = 0; k < 8 && hi != live_by_addr.end(); k++) ++hi;
				for (auto x = lo; x != hi; ++x) chk(x);
			}
		}
	}

	void fill(Block &b) {
		size_t n = b.req;
		auto wr = [&](size_t from, size_t len) { ensure_rw(b.ptr + from, len); user_write(b.ptr + from, len); for (size_t i = 0; i < len; i++) b.ptr[from + i] = (char)patbyte(b.pat, from + i); };
		if (n <= 192 || pat_full(b.pat, n)) { if (n) wr(0, n); if (n > 192) probe(P_full_fill); }
		else { wr(0, 64); wr(n / 2 - 16, 32); wr(n - 64, 64); }
	}
	void verify(int h, size_t upto, uint64_t pat, const char *what) {
		Block &b = blk[h];
		// whenever the owner looks at its block (any task count): the bytes it asked for are accessible — another task's pool call must not poison them
		if (pi.poison && b.req && !b.inflight) { size_t head = b.req < 256 ? b.req : 256; if (ps_any(off(b.ptr), head, 1) || (b.req > 256 && ps_any(off(b.ptr) + b.req - 64, 64, 1))) violation("not_unpoisoned", "%s: requested bytes of live block #%d (+0x%llx, %zu requested, owned by task %d) are poisoned", what, h, (unsigned long long)off(b.ptr), b.req, b.owner); }
		auto rd = [&](size_t from, size_t len) {
			if (from >= upto) return; if (from + len > upto) len = upto - from;
			user_read(b.ptr + from, len);
			for (size_t i = 0; i < len; i++) if ((uint8_t)b.ptr[from + i] != patbyte(pat, from + i))
				violation(strcmp(what, "realloc") ? "content_changed" : "realloc_prefix", "%s: byte %zu of block #%d (+0x%llx, requested %zu) is 0x%02x, the owner wrote 0x%02x", what, from + i, h, (unsigned long long)off(b.ptr), b.req, (uint8_t)b.ptr[from + i], patbyte(pat, from + i));
		};
		size_t n = upto;
		(void)n;
		// the same windows that fill() wrote, computed from the size the pattern was written with
		size_t w = written_size[h];
		if (w <= 192 || pat_full(pat, w)) rd(0, w); else { rd(0, 64); rd(w / 2 - 16, 32); rd(w - 64, 64); }
	}
	std::vector<size_t> written_size = std::vector<size_t>(NH + NBULK + NMASS);

	uint64_t cls_of(size_t reported) { return reported <= max_small ? reported : 0; }

	void check_new_block(int me, int h, const char *what) {
		Block &b = blk[h];
		char *p = b.ptr;
		size_t need = b.req ? b.req : 1;
		if (!in_policy(p)) violation("outside_mapping", "%s(%zu) returned %p which is not in memory obtained from the policy", what, b.req, p);
		uint64_t o = off(p);
		if (!find_region(o)) violation("outside_mapping", "%s(%zu) returned +0x%llx which is not inside a region the pool currently has mapped", what, b.req, (unsigned long long)o);
		size_t rep = api->get_size(pc, pool, p); // instrumented: other tasks may run here, look the region up afterwards
		b.reported = rep;
		Region *r = find_region(o);
		if (!r || o + need > r->base + r->len) violation("outside_mapping", "%s(%zu) returned +0x%llx: [+0x%llx, +%zu) is not wholly inside a region the pool currently has mapped", what, b.req, (unsigned long long)o, (unsigned long long)o, need);
		if (rep < need) violation("too_small", "%s(%zu) returned a block whose reported size is %zu", what, b.req, rep);
		if (o + rep > r->base + r->len) violation("outside_mapping", "%s(%zu): reported size %zu reaches beyond the mapped region", what, b.req, rep);
		size_t al = 8; while (al < b.req && al < pi.pagesize) al <<= 1;
		if (al > pi.pagesize) al = pi.pagesize;
		if ((uintptr_t)p % al) violation("misaligned", "%s(%zu) returned +0x%llx which is not aligned to %zu", what, b.req, (unsigned long long)o, al);
		// disjoint from every other live block
		auto it = live_by_addr.upper_bound(o + rep - 1);
		if (it != live_by_addr.begin()) {
			--it;
			Block &x = blk[it->second];
			if (it->second != h && it->first + x.reported > o)
				violation("overlap", "%s(%zu) returned [+0x%llx, +%zu) which overlaps live block #%d [+0x%llx, +%zu) of task %d", what, b.req, (unsigned long long)o, rep, it->second, (unsigned long long)it->first, x.reported, x.owner);
		}
		if (pi.poison && ps_any(o, need, 1))
			violation("not_unpoisoned", "%s(%zu) returned +0x%llx but not all requested bytes are unpoisoned", what, b.req, (unsigned long long)o);
		live_by_addr[o] = h; last_touched = o;
		if (b.req >= (1ull << 31)) probe(P_huge_blocks);
		r->live++;
		if (r->last_free_task && r->last_free_task != me && r->last_free_step >= call_begin[me]) probe(P_remote_free_into_head);
		b.live = true; b.owner = me; b.alloc_task = me; b.offered = false; b.inflight = false;
		uint64_t c = cls_of(rep);
		if (c) { live_cls[c]++; if (live_cls[c] > peak_cls[c]) peak_cls[c] = live_cls[c]; }
	}

	void account_maps(int me, const Op &op, int h, bool is_realloc) {
		Cur &c = cur[me];
		for (uint64_t base : c.mapped_bases) {
			Region *r = find_region(base);
			if (!r) continue; // already unmapped in the same op
			if (h >= 0 && blk[h].live) {
				Block &b = blk[h];
				bool small = b.reported <= max_small;
				r->kind = small ? 0 : 1; r->cls = small ? b.reported : 0;
				if (small) {
					if (slabs_cls[r->cls] == 0) probe(P_slab_first); else probe(P_slab_additional);
					slabs_cls[r->cls]++;
					if (single && faultfree) {
						int64_t bps = blocks_per_slab(r->cls);
						if (bps > 0) {
							int64_t allowed = (peak_cls[r->cls] + bps - 1) / bps;
							if (slabs_cls[r->cls] > allowed)
								violation("footprint", "class %llu: slab #%lld mapped although at most %lld block(s) of the class were ever live at once (%lld blocks fit in one slab)", (unsigned long long)r->cls, (long long)slabs_cls[r->cls], (long long)peak_cls[r->cls], (long long)bps);
						}
					}
				} else probe(P_large);
				if (is_realloc) probe(P_realloc_map);
			}
		}
		for (int t = 1; t < MAXT; t++) if (t != me && cur[t].inflight_h != -1 && cur[t].maps_ok && c.maps_ok) probe(P_contended_construct);
	}

	void release_block(int h) {
		Block &b = blk[h];
		last_touched = off(b.ptr);
		if (Region *r = find_region(last_touched)) {
			int64_t bps = b.reported <= max_small ? blocks_per_slab(b.reported) : -1;
			if (bps > 0 && r->live == bps) probe(P_relink_full); // the slab was completely full: this free puts it back into the partial tree
			r->live--; r->last_free_task = cur_task(); r->last_free_step = now();
		}
		live_by_addr.erase(off(b.ptr));
		uint64_t c = cls_of(b.reported); if (c) live_cls[c]--;
		b.live = false; b.inflight = false; b.ptr = nullptr;
	}

	void check_freed(int me, char *p, size_t reported, bool was_unmapped) {
		if (!pi.poison || was_unmapped || !single) return;
		uint64_t o = off(p);
		if (reported > sizeof(void *) && ps_any(o + sizeof(void *), reported - sizeof(void *), 0))
			violation("not_repoisoned", "freed small block +0x%llx (%zu bytes): bytes beyond the allocator's link word are not poisoned again", (unsigned long long)o, reported);
	}

	int64_t pages_before[MAXT];
	uint64_t call_begin[MAXT] = {0};
	void pages_pre(int me) { if (single) pages_before[me] = (int64_t)api->used_pages(pc, pool); }
	void pages_post(int me, const char *what) {
		if (!single) return;
		Cur &c = cur[me];
		int64_t after = (int64_t)api->used_pages(pc, pool), d = after - pages_before[me];
		probe(P_pages_sampled);
		if (after < 0 || after > (int64_t)((arena_size + TAIL_SIZE) / pi.pagesize)) violation("page_counter", "numUsedPages() = %lld after %s: underflow or drift", (long long)after, what);
		int kept = 0; Region *kr = nullptr;
		for (uint64_t base : c.mapped_bases) { Region *r = find_region(base); if (r) { kept++; kr = r; } }
		int64_t returned = 0; for (auto &u : c.unmapped) { bool own = false; for (uint64_t b : c.mapped_bases) if (b == u.base) own = true; if (!own) returned += u.pages; }
		if (kept == 0 && c.unmapped.empty()) { if (d != 0) violation("page_counter", "numUsedPages() changed by %lld during %s although no region was taken or returned", (long long)d, what); return; }
		if (kept == 1) {
			int64_t dn = d + returned;
			if (dn <= 0) violation("page_counter", "numUsedPages() did not rise when a region of %llu bytes was taken (%s): change %lld, pages returned in the same call %lld", (unsigned long long)kr->len, what, (long long)d, (long long)returned);
			kr->pages = dn; kr->counted = true;
		} else if (kept == 0) {
			if (d != -returned) violation("page_counter", "numUsedPages() changed by %lld during %s but the region(s) returned had added %lld page(s)", (long long)d, what, (long long)returned);
		}
	}

	void after_failed(int me, const Op &op, const char *what, int src_h) {
		Cur &c = cur[me];
		if (locks_held(me) != 0) violation("mapfail_lock_left", "%s returned null after a failed map but task %d still holds %d pool lock(s)", what, me, locks_held(me));
		for (uint64_t base : c.mapped_bases) if (find_region(base)) violation("mapfail_leak", "%s returned null after a failed map but the region +0x%llx it mapped earlier in the same call is still mapped and unused", what, (unsigned long long)base);
		if (src_h >= 0) {
			Block &b = blk[src_h];
			if (!b.live) return;
			if (api->get_size(pc, pool, b.ptr) != b.reported) violation("mapfail_side_effect", "realloc failed but the source block #%d now reports size %zu instead of %zu", src_h, api->get_size(pc, pool, b.ptr), b.reported);
			if (pi.poison && b.req && ps_any(off(b.ptr), b.req, 1)) violation("mapfail_side_effect", "realloc failed but requested bytes of the source block #%d are now poisoned", src_h);
			Block saved = b; (void)saved;
			// content
			size_t w = written_size[src_h];
			auto rd = [&](size_t from, size_t len) { user_read(b.ptr + from, len); for (size_t i = 0; i < len; i++) if ((uint8_t)b.ptr[from + i] != patbyte(b.pat, from + i)) violation("mapfail_side_effect", "realloc failed but byte %zu of the source block #%d changed", from + i, src_h); };
			if (w <= 192 || pat_full(b.pat, w)) { if (w) rd(0, w); } else { rd(0, 64); rd(w / 2 - 16, 32); rd(w - 64, 64); }
		}
	}

	// allocate-like call with all C01/C04 checks; returns true if the slot now holds a block
	bool do_alloc(int me, const Op &op, int h, size_t n, bool via_realloc_null) {
		Block &b = blk[h];
		const char *what = via_realloc_null ? "realloc(null)" : "allocate";
		begin_call(me, op);
		pages_pre(me);
		char *p = (char *)(via_realloc_null ? api->realloc(pc, pool, nullptr, n) : api->allocate(pc, pool, n));
		Cur &c = cur[me];
		logev(0x5001, p ? off(p) : 0, n);
		if (!p) {
			if (!c.failed_any) violation("null_without_fault", "%s(%zu) returned null although no map call failed", what, n);
			after_failed(me, op, what, -1);
			pages_post(me, what);
			end_call(me);
			if (op.mapfail & NORETRY) { probe(P_burst_fail); return false; } // part of a failure burst: recovery is judged by a later request
			// recovery: the same request with mapping working again must succeed
			Op retry = op; retry.mapfail = 0;
			begin_call(me, retry); pages_pre(me);
			p = (char *)api->allocate(pc, pool, n);
			if (!p && !cur[me].failed_any) violation("no_recovery", "allocate(%zu) still returns null after the policy's map works again", n);
			if (!p) { end_call(me); return false; }
			probe(P_recovered);
		} else if (c.failed_any) {
			bool injected = c.failed_injected;
			if (injected) violation("mapfail_not_null", "%s(%zu) returned +0x%llx although the map call it needed returned 0", what, n, (unsigned long long)off(p));
		}
		if (h >= slot_hi) slot_hi = h + 1;
		b.ptr = p; b.req = n; b.pat = fill_rng().next();
		check_new_block(me, h, what);
		account_maps(me, op, h, false);
		pages_post(me, what);
		end_call(me);
		written_size[h] = b.req;
		fill(b);
		return true;
	}

	void do_free(int me, const Op &op, int h, int mode, size_t dn) { // mode 0 free, 1 deallocate, 2 realloc(p,0)
		Block &b = blk[h];
		verify(h, b.req, b.pat, "free");
		size_t rep = api->get_size(pc, pool, b.ptr);
		if (rep != b.reported) violation("size_changed", "block #%d reported size %zu at allocation and %zu now", h, b.reported, rep);
		char *p = b.ptr; size_t reported = b.reported;
		if (b.alloc_task != me && me != 0) probe(P_xfree);
		begin_call(me, op);
		pages_pre(me);
		b.inflight = true;
		logev(0x5002, off(p), (uint64_t)mode);
		if (mode == 0) api->free(pc, pool, p);
		else if (mode == 1) api->deallocate(pc, pool, p, dn % (reported + 1));
		else { void *r = api->realloc(pc, pool, p, 0); if (r) violation("realloc_semantics", "realloc(p, 0) returned %p instead of null", r); }
		bool unm = cur[me].unmaps > 0;
		if (reported > max_small && !unm) violation("large_not_returned", "freeing large block #%d (+0x%llx, %zu bytes) did not return its reservation to the policy", h, (unsigned long long)off(p), reported);
		release_block(h);
		check_freed(me, p, reported, unm);
		pages_post(me, mode == 2 ? "realloc(p,0)" : "free");
		end_call(me);
	}

	void do_realloc(int me, const Op &op, int h, size_t n) {
		Block &b = blk[h];
		// a block in reserved address space has no memory behind most of its bytes: a copying realloc may only copy what the owner wrote
		if (in_tail(b.ptr) && n > 64) { n = 64; probe(P_huge_realloc_clamped); }
		if (n >= (1ull << 31)) probe(P_huge_realloc_grow);
		b.busy = true;
		do_realloc_inner(me, op, h, n);
		b.busy = false;
	}
	void do_realloc_inner(int me, const Op &op, int h, size_t n) {
		Block &b = blk[h];
		verify(h, b.req, b.pat, "before realloc");
		char *oldp = b.ptr; size_t oldreq = b.req, oldrep = b.reported; uint64_t oldpat = b.pat; size_t oldw = written_size[h];
		// the source block's red zone (bytes beyond the requested size, up to the capacity) as it is before the call
		size_t rz = pi.poison && oldrep > oldreq ? std::min<size_t>(oldrep - oldreq, 4096) : 0;
		if (granule && rz) { size_t skip = (8 - (off(oldp) + oldreq) % 8) % 8; rz = rz > skip ? rz - skip : 0; } // (the granule holding the last requested byte is shared)
		size_t rz_from = oldreq + (granule ? (8 - (off(oldp) + oldreq) % 8) % 8 : 0);
		bool rz_poisoned = rz && !ps_any(off(oldp) + rz_from, rz, 0);
		begin_call(me, op);
		pages_pre(me);
		b.inflight = true;
		char *q = (char *)api->realloc(pc, pool, oldp, n);
		Cur &c = cur[me];
		logev(0x5003, q ? off(q) : 0, n);
		if (!q) {
			b.inflight = false;
			if (!c.failed_any) violation("realloc_semantics", "realloc(+0x%llx, %zu) returned null although no map call failed", (unsigned long long)off(oldp), n);
			after_failed(me, op, "realloc", h);
			if (rz_poisoned && ps_any(off(oldp) + rz_from, rz, 0)) violation("mapfail_side_effect", "realloc failed but it touched the source block #%d: bytes beyond its requested size (%zu of a capacity of %zu) were poisoned before the call and are not any more", h, oldreq, oldrep);
			pages_post(me, "realloc");
			end_call(me);
			return;
		}
		if (c.failed_any) { bool injected = c.failed_injected; if (injected) violation("mapfail_not_null", "realloc(%zu) returned non-null although the map call it needed returned 0", n); }
		if (q == oldp) {
			probe(P_realloc_inplace);
			b.inflight = false;
			if (c.unmaps) violation("realloc_semantics", "realloc kept the block in place but unmapped a region");
			size_t rep = api->get_size(pc, pool, q);
			if (rep < n) violation("too_small", "realloc(%zu) kept the block in place but its reported size is %zu", n, rep);
			// (the block realloc returns is a new block as far as "the reported size does not change while the block lives" goes:
			//  a pool that reports exact request sizes may legitimately report a different size after an in-place realloc)
			if (rep != oldrep) { uint64_t c0 = cls_of(oldrep), c1 = cls_of(rep); if (c0) live_cls[c0]--; if (c1) { live_cls[c1]++; if (live_cls[c1] > peak_cls[c1]) peak_cls[c1] = live_cls[c1]; } b.reported = rep; }
			if (pi.poison && ps_any(off(q), n, 1)) violation("not_unpoisoned", "after realloc(%zu) in place not all requested bytes are unpoisoned", n);
			b.req = n;
			size_t keep = std::min(oldreq, n);
			written_size[h] = oldw; verify_prefix(h, keep, oldpat, oldw);
		} else {
			probe(P_realloc_moved);
			// old block is gone
			size_t keep = std::min(oldreq, n);
			bool unm = c.unmaps > 0;
			if (oldrep > max_small && !unm) violation("large_not_returned", "realloc moved large block #%d but did not return its old reservation", h);
			release_block(h);
			b.ptr = q; b.req = n; b.pat = oldpat;
			check_new_block(me, h, "realloc");
			account_maps(me, op, h, true);
			written_size[h] = oldw; verify_prefix(h, keep, oldpat, oldw);
			check_freed(me, oldp, oldrep, unm);
		}
		pages_post(me, "realloc");
		end_call(me);
		// the owner now rewrites the whole block with a fresh pattern
		b.pat = fill_rng().next(); written_size[h] = b.req; fill(b);
	}
	void verify_prefix(int h, size_t keep, uint64_t pat, size_t w) {
		Block &b = blk[h];
		auto rd = [&](size_t from, size_t len) {
			if (from >= keep) return; if (from + len > keep) len = keep - from;
			user_read(b.ptr + from, len);
			for (size_t i = 0; i < len; i++) if ((uint8_t)b.ptr[from + i] != patbyte(pat, from + i))
				violation("realloc_prefix", "after realloc byte %zu of block #%d is 0x%02x but the old block held 0x%02x (first min(old,new)=%zu bytes must be preserved)", from + i, h, (uint8_t)b.ptr[from + i], patbyte(pat, from + i), keep);
		};
		if (w <= 192 || pat_full(pat, w)) rd(0, w); else { rd(0, 64); rd(w / 2 - 16, 32); rd(w - 64, 64); }
	}

	// ------------------------------------------------------------ exec
	void exec(int me, const Op &op) override {
		int h = (int)(((op.a[0] % NH) + NH) % NH);
		Block &b = blk[h];
		bool mine = b.live && b.owner == me && !b.offered;
		switch (op.kind) {
		case OP_ALLOC:
			if (b.live || b.offered || b.busy) { probe(P_skipped); return; } // busy: another task's realloc is moving the slot's block right now
			do_alloc(me, op, h, (size_t)op.a[1], false);
			break;
		case OP_REALLOC_NULL:
			if (b.live || b.offered || b.busy) { probe(P_skipped); return; }
			do_alloc(me, op, h, (size_t)op.a[1], true);
			break;
		case OP_FREE: if (!mine) { probe(P_skipped); return; } do_free(me, op, h, 0, 0); break;
		case OP_DEALLOC: if (!mine) { probe(P_skipped); return; } do_free(me, op, h, 1, (size_t)op.a[1]); break;
		case OP_REALLOC_ZERO: if (!mine) { probe(P_skipped); return; } do_free(me, op, h, 2, 0); break;
		case OP_REALLOC: if (!mine || op.a[1] <= 0) { probe(P_skipped); return; } do_realloc(me, op, h, (size_t)op.a[1]); break;
		case OP_FREE_NULL: {
			begin_call(me, op); pages_pre(me);
			if (op.a[1] == 0) api->free(pc, pool, nullptr); else if (op.a[1] == 1) api->deallocate(pc, pool, nullptr, 16); else { if (api->get_size(pc, pool, nullptr) != 0) violation("null_free_side_effect", "get_size(null) != 0"); }
			if (cur[me].map_calls || cur[me].unmaps) violation("null_free_side_effect", "free/deallocate of a null pointer called the policy");
			pages_post(me, "free(null)"); end_call(me);
			break; }
		case OP_GETSIZE: {
			if (!mine) { probe(P_skipped); return; }
			size_t rep = api->get_size(pc, pool, b.ptr);
			if (rep != b.reported) violation("size_changed", "block #%d reported size %zu at allocation and %zu now", h, b.reported, rep);
			break; }
		case OP_VERIFY: if (!mine) { probe(P_skipped); return; } verify(h, b.req, b.pat, "verify"); break;
		case OP_GIVE:
			if (!mine) { // offer some block this task owns (the first one at or after the named slot)
				int f = -1; for (int k = 0; k < NH; k++) { int x = (h + k) % NH; if (blk[x].live && blk[x].owner == me && !blk[x].offered) { f = x; break; } }
				if (f < 0) { probe(P_skipped); return; }
				Block &g = blk[f]; g.chan.clear(); hb_release(g.chan); g.offered = true; g.owner = 0;
				if (getenv("SLAB_TRACE")) fprintf(stderr, "t%d give(fallback) slot %d ptr +0x%llx\n", me, f, (unsigned long long)off(g.ptr));
				return;
			}
			b.chan.clear(); hb_release(b.chan); b.offered = true; b.owner = 0;
			break;
		case OP_TAKE: {
			bool got = false;
			for (int tries = 0; tries < 12 && !got; tries++) {
				for (int k = 0; k < NH; k++) { int x = (h + k) % NH; if (blk[x].live && blk[x].offered) { h = x; got = true; break; } } // any offered block, starting at the named slot
				if (!got) yield();
			}
			if (!got) { probe(P_take_fail); break; }
			Block &b = blk[h];
			hb_acquire(b.chan); b.offered = false; b.owner = me; probe(P_handover);
			if (getenv("SLAB_TRACE")) fprintf(stderr, "t%d take slot %d ptr +0x%llx req %zu alloc_task %d action %d\n", me, h, (unsigned long long)off(b.ptr), b.req, b.alloc_task, (int)(op.a[1] & 3));
			// the taker now uses a block another task allocated: verify it, then free / deallocate / realloc it (or keep it)
			verify(h, b.req, b.pat, "take");
			switch (op.a[1] & 3) {
			case 1: do_free(me, op, h, 0, 0); break;
			case 2: do_free(me, op, h, 1, (size_t)op.a[2]); break;
			case 3: do_realloc(me, op, h, (size_t)(op.a[2] > 0 ? op.a[2] : 1)); break;
			default: break;
			}
			break; }
		case OP_PAGES: {
			if (!single) return;
			pages_pre(me); cur[me].mapped_bases.clear(); cur[me].unmapped.clear(); pages_post(me, "no-op");
			break; }
		case OP_BULK: {
			// many blocks of one class at once: slabs fill completely, several slabs per class, head/partial-tree changes
			size_t n = (size_t)op.a[1]; int64_t cnt = op.a[2]; int pat = (int)op.a[3];
			if (cnt > NBULK) cnt = NBULK;
			std::vector<int> hs;
			int ntk = plan().ntasks, share = NBULK / ntk, lo = NH + (me - 1) * share; // bulk slots are private to the task
			for (int i = lo; i < lo + share && (int64_t)hs.size() < cnt; i++) if (!blk[i].live && !blk[i].offered) hs.push_back(i);
			uint64_t maps0 = total_maps; bool filled = false;
			std::vector<int> got;
			for (int x : hs) {
				Op a = op; a.kind = OP_ALLOC; // map-failure bits of the bulk op index its map calls across all of its pool calls
				uint64_t before = total_maps;
				if (pat == 7) { // a different size for every block: every class, now and then a large frame
					uint64_t r = fill_rng().next(); int ci = (int)(r % (uint64_t)pi.num_buckets);
					n = class_size(ci) - (size_t)((r >> 8) % (class_size(ci) / 2 + 1)); if (!n) n = 1;
					if ((r >> 40) % 37 == 0) n = max_small + 1 + (size_t)((r >> 20) % (2 * pi.pagesize));
				}
				if (!do_alloc(me, a, x, n, false)) { if (op.mapfail & NORETRY) continue; break; }
				got.push_back(x); probe(P_bulk_blocks);
				if (total_maps != before && total_maps - maps0 >= 2 && !filled) { filled = true; probe(P_slab_filled); }
				progress();
			}
			auto rel = [&](int x, int mode) { Op a = op; a.mapfail = 0; do_free(me, a, x, mode, blk[x].req); progress(); };
			if (pat == 0 || pat == 7) for (size_t i = 0; i < got.size(); i++) rel(got[pat == 7 ? (i * 7919) % got.size() == i ? i : i : i], (int)(i & 1));
			else if (pat == 1) for (size_t i = got.size(); i-- > 0;) rel(got[i], 1);
			else if (pat == 2) { for (size_t i = 0; i < got.size(); i += 2) rel(got[i], 0); for (size_t i = 1; i < got.size(); i += 2) rel(got[i], 0); }
			else if (pat >= 4) {
				// one block out of every slab, slabs taken in descending (4) / ascending (5) / random (6) address order;
				// then drain them again (always from the lowest partial slab), twice; finally free everything
				std::map<uint64_t, std::vector<int>> by_slab;
				for (int x : got) { Region *r = find_region(off(blk[x].ptr)); by_slab[r ? r->base : 0].push_back(x); }
				std::vector<uint64_t> order; for (auto &kv : by_slab) order.push_back(kv.first);
				if (pat == 4) std::reverse(order.begin(), order.end());
				else if (pat == 6) for (size_t i = order.size(); i > 1; i--) std::swap(order[i - 1], order[fill_rng().below(i)]);
				for (int round = 0; round < 2; round++) {
					std::vector<int> freed;
					for (uint64_t s : order) { auto &v = by_slab[s]; size_t take = round ? 2 : 1; while (take-- && !v.empty()) { int x = v.back(); v.pop_back(); rel(x, 0); freed.push_back(x); } }
					uint64_t maps1 = total_maps;
					for (int x : freed) { Op a = op; a.kind = OP_ALLOC; a.mapfail = 0; if (!do_alloc(me, a, x, n, false)) break; progress(); }
					if (single && faultfree && n <= max_small && total_maps != maps1) violation("footprint", "re-allocating %zu blocks of %zu bytes that had just been freed (one or two per slab, %zu slabs) mapped %llu new region(s)", freed.size(), n, order.size(), (unsigned long long)(total_maps - maps1));
					for (int x : freed) if (blk[x].live) { Region *r = find_region(off(blk[x].ptr)); by_slab[r ? r->base : 0].push_back(x); }
					if (pat == 6) for (size_t i = order.size(); i > 1; i--) std::swap(order[i - 1], order[fill_rng().below(i)]);
				}
				for (int x : got) if (blk[x].live) rel(x, 0);
			}
			else { // free most, keep a few alive until the end of the run; then refill: freed memory must be reused
				size_t keep = got.size() > 6 ? 3 : 0;
				for (size_t i = keep; i < got.size(); i++) rel(got[i], 0);
				uint64_t maps1 = total_maps;
				for (size_t i = keep; i < got.size(); i++) { Op a = op; a.kind = OP_ALLOC; a.mapfail = 0; if (!do_alloc(me, a, got[i], n, false)) break; progress(); }
				if (single && faultfree && n <= max_small && total_maps != maps1) violation("footprint", "refilling %zu just-freed blocks of %zu bytes mapped %llu new region(s) although the freed memory was available", got.size() - keep, n, (unsigned long long)(total_maps - maps1));
				for (size_t i = keep; i < got.size(); i++) if (blk[got[i]].live) rel(got[i], 0);
			}
			break; }
		case OP_MASS: {
			if (!single) { probe(P_skipped); return; }
			size_t n = (size_t)op.a[1]; int64_t cnt = std::min<int64_t>(op.a[2], NMASS);
			int lo = NH + NBULK; int64_t got = 0;
			for (int64_t i = 0; i < cnt; i++) {
				if (blk[lo + i].live) break;
				Op a = op; a.kind = OP_ALLOC;
				if (!do_alloc(me, a, lo + (int)i, n, false)) break;
				got++; probe(P_mass_blocks); progress();
			}
			if (got > 65535) { Region *r0 = find_region(off(blk[lo].ptr)), *r1 = find_region(off(blk[lo + got - 1].ptr)); if (r0 && r0 == r1) probe(P_mass); }
			auto rel = [&](int64_t i) { Op a = op; a.mapfail = 0; do_free(me, a, lo + (int)i, (int)(i & 1), blk[lo + i].req); progress(); };
			if (op.a[3] == 0) for (int64_t i = 0; i < got; i++) rel(i);
			else if (op.a[3] == 1) for (int64_t i = got; i-- > 0;) rel(i);
			else { for (int64_t i = 0; i < got; i += 2) rel(i); for (int64_t i = 1; i < got; i += 2) rel(i); }
			break; }
		case OP_CHURN: {
			if (!single || !faultfree) { probe(P_skipped); return; }
			// constant live count alloc/free cycles in one class must not map anything new after warm-up
			size_t n = (size_t)op.a[1]; int live = (int)op.a[3]; int64_t iters = op.a[2];
			if (iters > 65536) probe(P_long_churn);
			if (iters > 131072) probe(P_long_churn2);
			std::vector<int> hs;
			for (int i = 0; i < NH && (int)hs.size() < live; i++) if (!blk[i].live && !blk[i].offered) hs.push_back(i);
			if (hs.empty()) { probe(P_skipped); return; }
			for (int x : hs) { Op a = op; a.kind = OP_ALLOC; a.mapfail = 0; if (!do_alloc(me, a, x, n, false)) return; }
			uint64_t maps0 = total_maps;
			for (int64_t i = 0; i < iters; i++) {
				int x = hs[(size_t)i % hs.size()];
				Op a = op; a.mapfail = 0;
				do_free(me, a, x, (int)(i % 2), blk[x].req);
				do_alloc(me, a, x, n, false);
				probe(P_churn_iters);
				if (total_maps != maps0) violation("footprint", "steady alloc/free cycle %lld with %zu live block(s) of %zu bytes called map() again", (long long)i, hs.size(), n);
				progress();
			}
			for (int x : hs) { Op a = op; a.mapfail = 0; do_free(me, a, x, 0, 0); }
			break; }
		}
	}

	void end_of_plan(int me) override {}

	void finish() override {
		// quiescent: every block still live must be intact and unpoisoned; then free everything
		int me = 0;
		for (int h = 0; h < slot_hi; h++) if (blk[h].live) {
			Block &b = blk[h];
			b.owner = 0; b.offered = false;
			if (pi.poison && b.req && ps_any(off(b.ptr), b.req, 1)) violation("not_unpoisoned", "at the end requested bytes of live block #%d are poisoned", h);
			verify(h, b.req, b.pat, "final verify");
			if (api->get_size(pc, pool, b.ptr) != b.reported) violation("size_changed", "block #%d reported size %zu at allocation and %zu at the end", h, b.reported, api->get_size(pc, pool, b.ptr));
		}
		bool sgl = single; single = true; // teardown is sequential: page accounting can be observed again
		for (int h = 0; h < slot_hi; h++) if (blk[h].live) {
			Op dummy; dummy.kind = OP_FREE;
			cur[0] = Cur();
			// page bookkeeping for regions mapped in multi-task runs is unknown: only check direction
			char *p = blk[h].ptr; size_t rep = blk[h].reported;
			begin_call(me, dummy);
			int64_t before = (int64_t)api->used_pages(pc, pool);
			blk[h].inflight = true;
			api->free(pc, pool, p);
			bool unm = cur[me].unmaps > 0;
			if (rep > max_small && !unm) violation("large_not_returned", "freeing large block #%d at the end did not return its reservation", h);
			release_block(h);
			int64_t after = (int64_t)api->used_pages(pc, pool);
			if (unm) {
				int64_t ret = 0; bool known = true; for (auto &u : cur[me].unmapped) { ret += u.pages; if (!u.counted) known = false; }
				if (after >= before) violation("page_counter", "numUsedPages() did not fall (%lld -> %lld) when a large reservation was returned", (long long)before, (long long)after);
				if (known && before - after != ret) violation("page_counter", "numUsedPages() fell by %lld when a reservation that had added %lld page(s) was returned", (long long)(before - after), (long long)ret);
			} else if (after != before) violation("page_counter", "numUsedPages() changed by %lld on a small free", (long long)(after - before));
			end_call(me);
		}
		single = sgl;
		// only slab memory stays mapped
		int64_t expect = 0; bool all_counted = true;
		for (auto &r : regions) {
			if (r.kind == 1) violation("large_not_returned", "after all blocks were freed the large reservation +0x%llx (%llu bytes) is still mapped", (unsigned long long)r.base, (unsigned long long)r.len);
			expect += r.pages; if (!r.counted) all_counted = false;
		}
		int64_t used = (int64_t)api->used_pages(pc, pool);
		{ // independent of who mapped what in which order: every slab still mapped accounts for the measured size of its class
			int64_t exp2 = 0; bool known = true;
			for (auto &r : regions) { auto it = slab_pages_cache.find({pc, r.cls}); if (r.kind != 0 || !r.cls || it == slab_pages_cache.end()) { known = false; break; } exp2 += it->second; }
			if (known) { probe(P_multi_pages_checked); if (used != exp2) violation("page_counter", "after all blocks were freed numUsedPages() = %lld but the %zu slab(s) still mapped account for %lld page(s) (drift or a lost update)", (long long)used, regions.size(), (long long)exp2); }
		}
		if (all_counted && used != expect) violation("page_counter", "after all blocks were freed numUsedPages() = %lld but the regions still mapped had added %lld", (long long)used, (long long)expect);
		if (used < 0 || used > (int64_t)((arena_size + TAIL_SIZE) / pi.pagesize)) violation("page_counter", "numUsedPages() = %lld at the end: underflow or drift", (long long)used);
		for (int t = 1; t < MAXT; t++) if (locks_held(t) != 0) violation("mapfail_lock_left", "task %d finished while holding %d pool lock(s)", t, locks_held(t));
		// Reuse test (some runs): every slab still mapped is completely free now, so refilling each class up to the capacity of
		// its slabs must not map anything — a slab the pool can no longer reach (orphaned in a refill race, lost on a failure
		// path) shows up as an extra map here. Judged sequentially, after all tasks have finished.
		if (plan().knob("reuse_check", 0)) {
			std::map<uint64_t, int64_t> slabs; bool known = true;
			for (auto &r : regions) { if (r.kind != 0 || !r.cls) { known = false; break; } slabs[r.cls]++; }
			int64_t total = 0; if (known) for (auto &kv : slabs) { int64_t b = blocks_per_slab(kv.first); if (b <= 0) { known = false; break; } total += b * kv.second; }
			if (known && total > 0 && total <= 1500) {
				probe(P_reuse_checked);
				bool sgl2 = single; single = false; // (page deltas of this phase are not judged)
				int slot = NH;
				for (auto &kv : slabs) {
					int64_t want = blocks_per_slab(kv.first) * kv.second;
					uint64_t maps0 = total_maps;
					for (int64_t i = 0; i < want && slot < NH + NBULK; i++, slot++) { Op a; a.kind = OP_ALLOC; cur[0] = Cur(); if (!do_alloc(0, a, slot, (size_t)kv.first, false)) break; }
					if (total_maps != maps0)
						violation("footprint", "class %llu: %lld slab(s) are mapped and completely free, yet allocating their capacity (%lld blocks) mapped %llu more region(s): slab memory has become unreachable", (unsigned long long)kv.first, (long long)kv.second, (long long)want, (unsigned long long)(total_maps - maps0));
				}
				for (int h = NH; h < slot; h++) if (blk[h].live) { Op a; a.kind = OP_FREE; cur[0] = Cur(); do_free(0, a, h, 0, 0); }
				single = sgl2;
			}
		}
	}

	// ------------------------------------------------------------ C04: enumerate failure positions
	void derive(const Plan &base, std::vector<Plan> &out) override {
		if (base.profile != "C04") return;
		// map call sites of the fault-free base run: (task, opid, j)
		std::vector<std::pair<size_t, int>> sites;
		for (auto &s : map_sites) {
			int task = s.first >> 20, opid = s.first & 0xFFFFF;
			for (size_t i = 0; i < base.ops.size(); i++) if (base.ops[i].task == task && base.ops[i].id == opid) { if (s.second < 31) sites.push_back({i, s.second}); break; }
		}
		bool quick = base.knob("tier", 0) == 0;
		if (sites.size() > (quick ? 20u : 40u)) sites.resize(quick ? 20 : 40);
		auto with = [&](std::initializer_list<size_t> idx) { Plan q = base; for (size_t k : idx) q.ops[sites[k].first].mapfail |= 1u << sites[k].second; q.knobs["derived"] = 1; return q; };
		for (size_t i = 0; i < sites.size(); i++) out.push_back(with({i}));
		size_t np = sites.size() <= 8 ? sites.size() : 8; if (quick && np > 5) np = 5;
		for (size_t i = 0; i < np; i++) for (size_t j = i + 1; j < np; j++) out.push_back(with({i, j}));
		if (sites.size() > 8) { Rng r; r.seed(base.seed ^ 0xC04); for (int k = 0; k < (quick ? 6 : 16); k++) { size_t i = r.below(sites.size()), j = r.below(sites.size()); if (i != j) out.push_back(with({i, j})); } }
	}

	std::vector<Op> simplify(const Op &o) override {
		std::vector<Op> v;
		if ((o.kind == OP_ALLOC || o.kind == OP_REALLOC || o.kind == OP_REALLOC_NULL || o.kind == OP_CHURN) && o.a[1] > 1) {
			// towards class boundaries and small values
			size_t n = (size_t)o.a[1];
			size_t c = 8; while (c < n) c <<= 1;
			for (size_t cand : {c, c / 2 + 1, (size_t)1}) if (cand != n && cand >= 1) { Op x = o; x.a[1] = (int64_t)cand; v.push_back(x); }
		}
		if (o.kind == OP_BULK) { if (o.a[2] > 8) { Op x = o; x.a[2] = o.a[2] / 2; v.push_back(x); Op y = o; y.a[2] = o.a[2] - 1; v.push_back(y); } if (o.a[3]) { Op x = o; x.a[3] = 0; v.push_back(x); } }
		if (o.kind == OP_MASS) { if (o.a[2] > 8) { Op x = o; x.a[2] = o.a[2] / 2; v.push_back(x); Op y = o; y.a[2] = o.a[2] - 1; v.push_back(y); } if (o.a[3]) { Op x = o; x.a[3] = 0; v.push_back(x); } }
		if (o.kind == OP_CHURN) { if (o.a[2] > 4) { Op x = o; x.a[2] = o.a[2] / 4; v.push_back(x); } if (o.a[3] > 1) { Op x = o; x.a[3] = 1; v.push_back(x); } }
		if (o.kind == OP_REALLOC_NULL) { Op x = o; x.kind = OP_ALLOC; v.push_back(x); }
		if (o.kind == OP_DEALLOC || o.kind == OP_REALLOC_ZERO) { Op x = o; x.kind = OP_FREE; v.push_back(x); }
		return v;
	}
};

std::map<std::pair<int, uint64_t>, int64_t> SlabEngine::bps_cache;
std::map<std::pair<int, uint64_t>, int64_t> SlabEngine::slab_pages_cache;
std::map<int, uint64_t> SlabEngine::max_small_cache;

extern "C" uint32_t simh_lock_age() { return G->calibrating ? 0 : (uint32_t)plan().knob("age", 0); }
extern "C" uintptr_t slabh_map(size_t len, size_t align) { return G->do_map(len, align); }
extern "C" void slabh_unmap(uintptr_t base, size_t len) { G->do_unmap(base, len); }
extern "C" void slabh_poison(int kind, void *p, size_t n) { G->do_poison(kind, p, n); }
// tracing is not part of any listed property: the path is only made to run (half of the U0 runs), its records are counted
extern "C" int slabh_trace(const void *buf, size_t n) { if (!buf) return !G->calibrating && (plan().seed & 1); probe(P_trace_records); return 1; }
Engine *sim::make_engine() { return new SlabEngine(); }
