#include <frg/spinlock.hpp>
template <class L> struct Counted;
#define MUTEX Counted<frg::ticket_spinlock>
#define API_NAME slab_api_ticket
#include "sut_impl.hpp"
