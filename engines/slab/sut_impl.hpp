// Instrumented: slab_pool<Policy, MUTEX> for every simulated policy. Included by one TU per mutex type.
#include <new>
#include <type_traits>
#include <utility>
#include <frg/spinlock.hpp>
#include <frg/slab.hpp>
#include "../../sim/simrt.hpp"
#include "sut.hpp"

extern "C" uint32_t simh_lock_age(); // harness: 0, or a counter value just below 2^32 ("aged" ticket lock)
#ifndef SIM_TICKET_LAYOUT_PROBE
#define SIM_TICKET_LAYOUT_PROBE
static inline int sim_ticket_layout_ok() { // fresh lock + one lock()/unlock() pair == two 32-bit counters at 1 ?
	if (sizeof(frg::ticket_spinlock) != 8) return 0;
	alignas(8) unsigned char buf[8]; auto l = new (buf) frg::ticket_spinlock();
	l->lock(); l->unlock();
	unsigned int w[2]; __builtin_memcpy(w, buf, 8);
	return w[0] == 1 && w[1] == 1;
}
#endif
template <class L>
struct Counted : L {
	Counted() {
		// A ticket lock that has been acquired ~2^32 times has both counters near the wrap; instead of replaying that
		// history the run may start from that state. Relies on the lock being exactly two 32-bit counters (checked by size).
		if constexpr (sizeof(L) == 8 && std::is_base_of_v<frg::ticket_spinlock, L>) { static const int ok = sim_ticket_layout_ok(); uint32_t a = ok ? simh_lock_age() : 0; if (a) { uint32_t both[2] = {a, a}; __builtin_memcpy(static_cast<L *>(this), both, 8); } }
	}
	void lock() { L::lock(); sim::note_lock(+1); }
	void unlock() { sim::note_lock(-1); L::unlock(); }
};

struct PolA0 { // all defaults, aligned map
	uintptr_t map(size_t len, size_t align) { return slabh_map(len, align); }
	void unmap(uintptr_t b, size_t l) { slabh_unmap(b, l); }
};
struct PolU0 { // all defaults, unaligned map, poison hooks, and the optional tracing hooks (so that slab.hpp's trace path is compiled in and runs)
	uintptr_t map(size_t len) { return slabh_map(len, 0); }
	void unmap(uintptr_t b, size_t l) { slabh_unmap(b, l); }
	void poison(void *p, size_t n) { slabh_poison(0, p, n); }
	void unpoison(void *p, size_t n) { slabh_poison(1, p, n); }
	void unpoison_expand(void *p, size_t n) { slabh_poison(2, p, n); }
	// the hook names are overloaded (a policy may offer further variants of its own): detection must go by the call, not by the name
	void poison(void *p, size_t n, int) { slabh_poison(0, p, n); }
	void unpoison(void *p, size_t n, int) { slabh_poison(1, p, n); }
	void unpoison_expand(void *p, size_t n, int) { slabh_poison(2, p, n); }
	bool enable_trace() { return slabh_trace(nullptr, 0) != 0; }
	template <class F> void walk_stack(F f) { for (uintptr_t i = 1; i <= 20; i++) f(0x1000 + i); } // deeper than the pool records
	void output_trace(void *buffer, size_t size) { slabh_trace(buffer, size); }
};
// parametrised geometries; the four shapes differ in which members exist (that is what slab.hpp detects)
// policies may declare their constants with any integral type: odd bucket counts use unsigned int, even ones size_t;
// a constant given as 0 is not declared at all (the pool falls back to its default for that one constant)
template <int NB> using GeomT = std::conditional_t<(NB & 1) != 0, unsigned int, size_t>;
template <class T, size_t V> struct DPage { static constexpr T pagesize = V; };
template <class T> struct DPage<T, 0> {};
template <class T, size_t V> struct DSlab { static constexpr T slabsize = V; };
template <class T> struct DSlab<T, 0> {};
template <class T, size_t V> struct DSb { static constexpr T sb_size = V; };
template <class T> struct DSb<T, 0> {};
template <int V> struct DNb { static constexpr int num_buckets = V; };
template <> struct DNb<0> {};
template <size_t PAGE, size_t SLAB, size_t SB, int NB> struct Consts : DPage<GeomT<NB>, PAGE>, DSlab<GeomT<NB>, SLAB>, DSb<GeomT<NB>, SB>, DNb<NB> {};
template <size_t PAGE, size_t SLAB, size_t SB, int NB, int AL, int PO> struct Pol;
template <size_t PAGE, size_t SLAB, size_t SB, int NB>
struct Pol<PAGE, SLAB, SB, NB, 1, 1> : Consts<PAGE, SLAB, SB, NB> {
	uintptr_t map(size_t len, size_t align) { return slabh_map(len, align); }
	void unmap(uintptr_t b, size_t l) { slabh_unmap(b, l); }
	void poison(void *p, size_t n) { slabh_poison(0, p, n); }
	void unpoison(void *p, size_t n) { slabh_poison(1, p, n); }
	void unpoison_expand(void *p, size_t n) { slabh_poison(2, p, n); }
};
template <size_t PAGE, size_t SLAB, size_t SB, int NB>
struct Pol<PAGE, SLAB, SB, NB, 1, 0> : Consts<PAGE, SLAB, SB, NB> {
	uintptr_t map(size_t len, size_t align) { return slabh_map(len, align); }
	void unmap(uintptr_t b, size_t l) { slabh_unmap(b, l); }
};
template <size_t PAGE, size_t SLAB, size_t SB, int NB>
struct Pol<PAGE, SLAB, SB, NB, 0, 0> : Consts<PAGE, SLAB, SB, NB> {
	uintptr_t map(size_t len) { return slabh_map(len, 0); }
	void unmap(uintptr_t b, size_t l) { slabh_unmap(b, l); }
};
template <size_t PAGE, size_t SLAB, size_t SB, int NB>
struct Pol<PAGE, SLAB, SB, NB, 0, 1> : Consts<PAGE, SLAB, SB, NB> {
	uintptr_t map(size_t len) { return slabh_map(len, 0); }
	void unmap(uintptr_t b, size_t l) { slabh_unmap(b, l); }
	void poison(void *p, size_t n) { slabh_poison(0, p, n); }
	void unpoison(void *p, size_t n) { slabh_poison(1, p, n); }
	void unpoison_expand(void *p, size_t n) { slabh_poison(2, p, n); }
};
#define GEOM(tag, al, po, pg, sl, sb, nb) using Pol##tag = Pol<pg, sl, sb, nb, al, po>;
#include GEOMS_INC
#undef GEOM

namespace {
PolA0 pol_A0; PolU0 pol_U0;
#define GEOM(tag, al, po, pg, sl, sb, nb) Pol##tag pol_##tag;
#include GEOMS_INC
#undef GEOM

#define GEOM(tag, al, po, pg, sl, sb, nb) case PC_##tag: return fn.template operator()<Pol##tag>(pol_##tag);
template <class F>
auto dispatch(int pc, F fn) {
	switch (pc) {
	case PC_A0: return fn.template operator()<PolA0>(pol_A0);
	case PC_U0: return fn.template operator()<PolU0>(pol_U0);
#include GEOMS_INC
	default: return fn.template operator()<PolA0>(pol_A0);
	}
}
#undef GEOM

template <class P> using Pool = frg::slab_pool<P, MUTEX>;

size_t f_pool_size(int pc) { return dispatch(pc, []<class P>(P &) -> size_t { return sizeof(Pool<P>); }); }
void f_construct(int pc, void *mem) { dispatch(pc, [&]<class P>(P &plc) -> int { new (mem) Pool<P>(plc); return 0; }); }
// odd policy indices go through the frg::slab_allocator facade (allocate / reallocate / free / deallocate / get_size),
// even ones call the pool directly: both are public entry points of the same properties
template <class P> using Facade = frg::slab_allocator<P, MUTEX>;
void *f_allocate(int pc, void *pool, size_t n) { return dispatch(pc, [&]<class P>(P &) -> void * { auto pl = static_cast<Pool<P> *>(pool); if (pc & 1) return Facade<P>(pl).allocate(n); return pl->allocate(n); }); }
void *f_realloc(int pc, void *pool, void *p, size_t n) { return dispatch(pc, [&]<class P>(P &) -> void * { auto pl = static_cast<Pool<P> *>(pool); if (pc & 1) return Facade<P>(pl).reallocate(p, n); return pl->realloc(p, n); }); }
void f_free(int pc, void *pool, void *p) { dispatch(pc, [&]<class P>(P &) -> int { auto pl = static_cast<Pool<P> *>(pool); if (pc & 1) Facade<P>(pl).free(p); else pl->free(p); return 0; }); }
void f_deallocate(int pc, void *pool, void *p, size_t n) { dispatch(pc, [&]<class P>(P &) -> int { auto pl = static_cast<Pool<P> *>(pool); if (pc & 1) Facade<P>(pl).deallocate(p, n); else pl->deallocate(p, n); return 0; }); }
size_t f_get_size(int pc, void *pool, void *p) { return dispatch(pc, [&]<class P>(P &) -> size_t { auto pl = static_cast<Pool<P> *>(pool); if (pc & 1) return Facade<P>(pl).get_size(p); return pl->get_size(p); }); }
size_t f_used_pages(int pc, void *pool) { return dispatch(pc, [&]<class P>(P &) -> size_t { return static_cast<Pool<P> *>(pool)->numUsedPages(); }); }
} // namespace

extern "C" const SlabApi API_NAME = {f_pool_size, f_construct, f_allocate, f_realloc, f_free, f_deallocate, f_get_size, f_used_pages};
