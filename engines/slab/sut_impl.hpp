// Instrumented: slab_pool<Policy, MUTEX> for the six simulated policies. Included by one TU per mutex type.
#include <new>
#include <type_traits>
#include <utility>
#include <frg/spinlock.hpp>
#include <frg/slab.hpp>
#include "../../sim/simrt.hpp"
#include "sut.hpp"

template <class L>
struct Counted : L {
	void lock() { L::lock(); sim::note_lock(+1); }
	void unlock() { sim::note_lock(-1); L::unlock(); }
};

struct PolA0 { // all defaults, aligned map
	uintptr_t map(size_t len, size_t align) { return slabh_map(len, align); }
	void unmap(uintptr_t b, size_t l) { slabh_unmap(b, l); }
};
struct PolA1 {
	static constexpr size_t pagesize = 0x1000, slabsize = 0x4000, sb_size = 0x10000; static constexpr int num_buckets = 8;
	uintptr_t map(size_t len, size_t align) { return slabh_map(len, align); }
	void unmap(uintptr_t b, size_t l) { slabh_unmap(b, l); }
	void poison(void *p, size_t n) { slabh_poison(0, p, n); }
	void unpoison(void *p, size_t n) { slabh_poison(1, p, n); }
	void unpoison_expand(void *p, size_t n) { slabh_poison(2, p, n); }
};
struct PolA2 {
	static constexpr size_t pagesize = 0x1000, slabsize = 0x2000, sb_size = 0x2000; static constexpr int num_buckets = 6;
	uintptr_t map(size_t len, size_t align) { return slabh_map(len, align); }
	void unmap(uintptr_t b, size_t l) { slabh_unmap(b, l); }
};
struct PolU0 { // defaults, unaligned map, poison
	uintptr_t map(size_t len) { return slabh_map(len, 0); }
	void unmap(uintptr_t b, size_t l) { slabh_unmap(b, l); }
	void poison(void *p, size_t n) { slabh_poison(0, p, n); }
	void unpoison(void *p, size_t n) { slabh_poison(1, p, n); }
	void unpoison_expand(void *p, size_t n) { slabh_poison(2, p, n); }
};
struct PolU1 {
	static constexpr size_t pagesize = 0x1000, slabsize = 0x4000, sb_size = 0x4000; static constexpr int num_buckets = 8;
	uintptr_t map(size_t len) { return slabh_map(len, 0); }
	void unmap(uintptr_t b, size_t l) { slabh_unmap(b, l); }
};
struct PolU2 {
	static constexpr size_t pagesize = 0x4000, slabsize = 0x8000, sb_size = 0x10000; static constexpr int num_buckets = 7;
	uintptr_t map(size_t len) { return slabh_map(len, 0); }
	void unmap(uintptr_t b, size_t l) { slabh_unmap(b, l); }
	void poison(void *p, size_t n) { slabh_poison(0, p, n); }
	void unpoison(void *p, size_t n) { slabh_poison(1, p, n); }
	void unpoison_expand(void *p, size_t n) { slabh_poison(2, p, n); }
};

struct PolA3 { // slab size that is not a power of two; classes up to 8192
	static constexpr size_t pagesize = 0x1000, slabsize = 0x7000, sb_size = 0x8000; static constexpr int num_buckets = 11;
	uintptr_t map(size_t len, size_t align) { return slabh_map(len, align); }
	void unmap(uintptr_t b, size_t l) { slabh_unmap(b, l); }
	void poison(void *p, size_t n) { slabh_poison(0, p, n); }
	void unpoison(void *p, size_t n) { slabh_poison(1, p, n); }
	void unpoison_expand(void *p, size_t n) { slabh_poison(2, p, n); }
};
struct PolU3 {
	static constexpr size_t pagesize = 0x1000, slabsize = 0x7000, sb_size = 0x8000; static constexpr int num_buckets = 11;
	uintptr_t map(size_t len) { return slabh_map(len, 0); }
	void unmap(uintptr_t b, size_t l) { slabh_unmap(b, l); }
};

// generic parametrised policies (non-default geometry); POISON adds the poison hooks
template <size_t PAGE, size_t SLAB, size_t SB, int NB>
struct PolAlignedPoison {
	static constexpr size_t pagesize = PAGE, slabsize = SLAB, sb_size = SB; static constexpr int num_buckets = NB;
	uintptr_t map(size_t len, size_t align) { return slabh_map(len, align); }
	void unmap(uintptr_t b, size_t l) { slabh_unmap(b, l); }
	void poison(void *p, size_t n) { slabh_poison(0, p, n); }
	void unpoison(void *p, size_t n) { slabh_poison(1, p, n); }
	void unpoison_expand(void *p, size_t n) { slabh_poison(2, p, n); }
};
template <size_t PAGE, size_t SLAB, size_t SB, int NB>
struct PolAligned {
	static constexpr size_t pagesize = PAGE, slabsize = SLAB, sb_size = SB; static constexpr int num_buckets = NB;
	uintptr_t map(size_t len, size_t align) { return slabh_map(len, align); }
	void unmap(uintptr_t b, size_t l) { slabh_unmap(b, l); }
};
template <size_t PAGE, size_t SLAB, size_t SB, int NB>
struct PolUnaligned {
	static constexpr size_t pagesize = PAGE, slabsize = SLAB, sb_size = SB; static constexpr int num_buckets = NB;
	uintptr_t map(size_t len) { return slabh_map(len, 0); }
	void unmap(uintptr_t b, size_t l) { slabh_unmap(b, l); }
};
template <size_t PAGE, size_t SLAB, size_t SB, int NB>
struct PolUnalignedPoison {
	static constexpr size_t pagesize = PAGE, slabsize = SLAB, sb_size = SB; static constexpr int num_buckets = NB;
	uintptr_t map(size_t len) { return slabh_map(len, 0); }
	void unmap(uintptr_t b, size_t l) { slabh_unmap(b, l); }
	void poison(void *p, size_t n) { slabh_poison(0, p, n); }
	void unpoison(void *p, size_t n) { slabh_poison(1, p, n); }
	void unpoison_expand(void *p, size_t n) { slabh_poison(2, p, n); }
};
using PolA4 = PolAlignedPoison<0x4000, 0x4000, 0x4000, 8>;
using PolU4 = PolUnaligned<0x2000, 0x2000, 0x2000, 6>;
using PolA5 = PolAligned<0x1000, 0x1000, 0x1000, 5>;
using PolU5 = PolUnalignedPoison<0x1000, 0x3000, 0x10000, 9>;

namespace {
PolA3 pa3; PolU3 pu3; PolA4 pa4; PolU4 pu4; PolA5 pa5; PolU5 pu5;
PolA0 pa0; PolA1 pa1; PolA2 pa2; PolU0 pu0; PolU1 pu1; PolU2 pu2;

#define DISPATCH(pc, EXPR) \
	switch (pc) { \
	case PC_A0: { using P = PolA0; auto &plc = pa0; (void)plc; EXPR; break; } \
	case PC_A1: { using P = PolA1; auto &plc = pa1; (void)plc; EXPR; break; } \
	case PC_A2: { using P = PolA2; auto &plc = pa2; (void)plc; EXPR; break; } \
	case PC_U0: { using P = PolU0; auto &plc = pu0; (void)plc; EXPR; break; } \
	case PC_U1: { using P = PolU1; auto &plc = pu1; (void)plc; EXPR; break; } \
	case PC_A3: { using P = PolA3; auto &plc = pa3; (void)plc; EXPR; break; } \
	case PC_U3: { using P = PolU3; auto &plc = pu3; (void)plc; EXPR; break; } \
	case PC_A4: { using P = PolA4; auto &plc = pa4; (void)plc; EXPR; break; } \
	case PC_U4: { using P = PolU4; auto &plc = pu4; (void)plc; EXPR; break; } \
	case PC_A5: { using P = PolA5; auto &plc = pa5; (void)plc; EXPR; break; } \
	case PC_U5: { using P = PolU5; auto &plc = pu5; (void)plc; EXPR; break; } \
	default: { using P = PolU2; auto &plc = pu2; (void)plc; EXPR; break; } }

template <class P> using Pool = frg::slab_pool<P, MUTEX>;

size_t f_pool_size(int pc) { size_t r = 0; DISPATCH(pc, r = sizeof(Pool<P>)); return r; }
void f_construct(int pc, void *mem) { DISPATCH(pc, new (mem) Pool<P>(plc)); }
void *f_allocate(int pc, void *pool, size_t n) { void *r = nullptr; DISPATCH(pc, r = static_cast<Pool<P> *>(pool)->allocate(n)); return r; }
void *f_realloc(int pc, void *pool, void *p, size_t n) { void *r = nullptr; DISPATCH(pc, r = static_cast<Pool<P> *>(pool)->realloc(p, n)); return r; }
void f_free(int pc, void *pool, void *p) { DISPATCH(pc, static_cast<Pool<P> *>(pool)->free(p)); }
void f_deallocate(int pc, void *pool, void *p, size_t n) { DISPATCH(pc, static_cast<Pool<P> *>(pool)->deallocate(p, n)); }
size_t f_get_size(int pc, void *pool, void *p) { size_t r = 0; DISPATCH(pc, r = static_cast<Pool<P> *>(pool)->get_size(p)); return r; }
size_t f_used_pages(int pc, void *pool) { size_t r = 0; DISPATCH(pc, r = static_cast<Pool<P> *>(pool)->numUsedPages()); return r; }
} // namespace

extern "C" const SlabApi API_NAME = {f_pool_size, f_construct, f_allocate, f_realloc, f_free, f_deallocate, f_get_size, f_used_pages};
