#include <frg/spinlock.hpp>
template <class L> struct Counted;
#define MUTEX Counted<frg::simple_spinlock>
#define API_NAME slab_api_simple
#include "sut_impl.hpp"
