#include "../../sim/simrt.hpp"
#define MUTEX sim::SimMutex
#define API_NAME slab_api_sim
#include "sut_impl.hpp"
