#pragma once
#include <stddef.h>
#include <stdint.h>
#ifndef GEOMS_INC
#define GEOMS_INC "geoms_default.inc"
#endif
enum { MT_SIM = 0, MT_TICKET = 1, MT_SIMPLE = 2, MT_N = 3 };
// policy configurations: 0 = A0 (aligned, all defaults), 1 = U0 (unaligned, poison, all defaults), then the GEOM list
enum { PC_A0 = 0, PC_U0 = 1,
#define GEOM(tag, al, po, pg, sl, sb, nb) PC_##tag,
#include GEOMS_INC
#undef GEOM
	PC_N };
// A constant given as 0 in the GEOM list is NOT declared by that policy (the pool then uses its default). pagesize.. are
// the values in effect — for undeclared ones the documented defaults of slab.hpp, which the harness uses only as workload
// hints (size generation, placement residues) and for the page-size cap of the alignment clause; d_* are the declared values.
struct PolicyInfo { const char *name; bool aligned, poison; size_t pagesize, slabsize, sb_size; int num_buckets; size_t d_page, d_slab, d_sb; int d_nb; };
static const PolicyInfo policy_info[PC_N] = {
	{"A0", true, false, 0x1000, 0x40000, 0x40000, 13, 0, 0, 0, 0},
	{"U0", false, true, 0x1000, 0x40000, 0x40000, 13, 0, 0, 0, 0},
#define GEOM(tag, al, po, pg, sl, sb, nb) {#tag, al != 0, po != 0, pg ? pg : 0x1000, sl ? sl : 0x40000, sb ? sb : 0x40000, nb ? nb : 13, pg, sl, sb, nb},
#include GEOMS_INC
#undef GEOM
};
struct SlabApi {
	size_t (*pool_size)(int pc);
	void (*construct)(int pc, void *mem);
	void *(*allocate)(int pc, void *pool, size_t n);
	void *(*realloc)(int pc, void *pool, void *p, size_t n);
	void (*free)(int pc, void *pool, void *p);
	void (*deallocate)(int pc, void *pool, void *p, size_t n);
	size_t (*get_size)(int pc, void *pool, void *p);
	size_t (*used_pages)(int pc, void *pool);
};
extern "C" {
// harness side (uninstrumented): the simulated Policy
uintptr_t slabh_map(size_t len, size_t align);
void slabh_unmap(uintptr_t base, size_t len);
void slabh_poison(int kind, void *p, size_t n); // 0 poison, 1 unpoison, 2 unpoison_expand
int slabh_trace(const void *buf, size_t n);     // (nullptr, 0): is tracing on in this run?  otherwise: one trace record
extern const SlabApi slab_api_sim, slab_api_ticket, slab_api_simple;
}
