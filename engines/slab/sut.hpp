#pragma once
#include <stddef.h>
#include <stdint.h>
enum { MT_SIM = 0, MT_TICKET = 1, MT_SIMPLE = 2, MT_N = 3 };
enum { PC_A0 = 0, PC_A1, PC_A2, PC_U0, PC_U1, PC_U2, PC_A3, PC_U3, PC_A4, PC_U4, PC_A5, PC_U5, PC_N };
struct PolicyInfo { const char *name; bool aligned, poison; size_t pagesize, slabsize, sb_size; int num_buckets; };
static const PolicyInfo policy_info[PC_N] = {
	{"A0:aligned,defaults(page 0x1000,slab 0x40000,sb 0x40000,13 buckets)", true, false, 0x1000, 0x40000, 0x40000, 13},
	{"A1:aligned,poison,page 0x1000,slab 0x4000,sb 0x10000,8 buckets", true, true, 0x1000, 0x4000, 0x10000, 8},
	{"A2:aligned,page 0x1000,slab 0x2000,sb 0x2000,6 buckets", true, false, 0x1000, 0x2000, 0x2000, 6},
	{"U0:unaligned,poison,defaults", false, true, 0x1000, 0x40000, 0x40000, 13},
	{"U1:unaligned,page 0x1000,slab 0x4000,sb 0x4000,8 buckets", false, false, 0x1000, 0x4000, 0x4000, 8},
	{"U2:unaligned,poison,page 0x4000,slab 0x8000,sb 0x10000,7 buckets", false, true, 0x4000, 0x8000, 0x10000, 7},
	{"A3:aligned,poison,page 0x1000,slab 0x7000 (not a power of two),sb 0x8000,11 buckets", true, true, 0x1000, 0x7000, 0x8000, 11},
	{"U3:unaligned,page 0x1000,slab 0x7000 (not a power of two),sb 0x8000,11 buckets", false, false, 0x1000, 0x7000, 0x8000, 11},
	{"A4:aligned,poison,page=slab=sb=0x4000,8 buckets", true, true, 0x4000, 0x4000, 0x4000, 8},
	{"U4:unaligned,page=slab=sb=0x2000,6 buckets", false, false, 0x2000, 0x2000, 0x2000, 6},
	{"A5:aligned,page=slab=sb=0x1000 (one-page slabs),5 buckets", true, false, 0x1000, 0x1000, 0x1000, 5},
	{"U5:unaligned,poison,page 0x1000,slab 0x3000 (not a power of two),sb 0x10000,9 buckets", false, true, 0x1000, 0x3000, 0x10000, 9},
};
struct SlabApi {
	size_t (*pool_size)(int pc);
	void (*construct)(int pc, void *mem);
	void *(*allocate)(int pc, void *pool, size_t n);
	void *(*realloc)(int pc, void *pool, void *p, size_t n);
	void (*free)(int pc, void *pool, void *p);
	void (*deallocate)(int pc, void *pool, void *p, size_t n);
	size_t (*get_size)(int pc, void *pool, void *p);
	size_t (*used_pages)(int pc, void *pool);
};
extern "C" {
// harness side (uninstrumented): the simulated Policy
uintptr_t slabh_map(size_t len, size_t align);
void slabh_unmap(uintptr_t base, size_t len);
void slabh_poison(int kind, void *p, size_t n); // 0 poison, 1 unpoison, 2 unpoison_expand
extern const SlabApi slab_api_sim, slab_api_ticket, slab_api_simple;
}
