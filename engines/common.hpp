#pragma once
#include "../sim/simrt.hpp"
namespace sim {
// swarm-style choice of schedule strategy and memory mode for one run
inline void pick_strategy(Rng &rng, Plan &p, bool allow_relaxed) {
	if (p.ntasks <= 1) { p.strat = S_SEQ; p.strat_arg = 0; }
	else {
		static const int dens[] = {2, 3, 8, 32, 128};
		switch (rng.below(10)) {
		case 0: case 1: case 2: p.strat = S_RAND; p.strat_arg = dens[rng.below(5)]; break;
		case 3: case 4: case 5: case 6: p.strat = S_PCT; p.strat_arg = 2 + (int)rng.below(4); break;
		case 7: p.strat = S_SYNC; p.strat_arg = dens[rng.below(3)]; break;
		case 8: p.strat = S_STALL; p.strat_arg = dens[rng.below(4)]; break;
		default: p.strat = S_RAND; p.strat_arg = 2; break;
		}
	}
	p.mem = MEM_SC; p.stale_q = 0; p.window = 0; p.casfail_q = 0;
	if (allow_relaxed && rng.chance(1, 2)) {
		static const int qs[] = {30, 150, 400, 800};
		static const int ws[] = {8, 40, 300, 3000};
		p.mem = MEM_RELAXED; p.stale_q = qs[rng.below(4)]; p.window = ws[rng.below(4)];
		p.casfail_q = rng.chance(1, 2) ? 0 : (rng.chance(1, 2) ? 100 : 400);
	}
	if (p.knobs.count("force_mem")) { int m = (int)p.knobs["force_mem"]; if (m == MEM_SC) { p.mem = MEM_SC; p.stale_q = p.casfail_q = 0; } else if (p.mem == MEM_SC) { p.mem = MEM_RELAXED; p.stale_q = 300; p.window = 300; } }
}

}
