#pragma once
#include <stdint.h>
namespace sim { struct SimMutex; }
enum { L_MP_RELACQ = 0, L_MP_RELAXED, L_MP_FENCES, L_SB_RELAXED, L_SB_SC, L_CORR, L_RMW_RELSEQ, L_MUTEX, L_MIXED, L_SPIN, L_IRIW_ACQ, L_IRIW_SC, L_MP_RELSEQ_SAMETHREAD, L_CAS_WEAK_LOOP, L_N };
struct Shared { // lives in the simulated arena; every field on its own cache line
	alignas(64) uint64_t x; alignas(64) uint64_t y; alignas(64) uint64_t data; alignas(64) uint64_t flag; alignas(64) uint64_t cnt;
	alignas(64) char mtx[128];
};
extern "C" {
void litmus_construct(Shared *s);
// runs task `t`'s part of litmus `id`; returns the task's observation (encoded registers)
uint64_t litmus_run(int id, int t, Shared *s);
}
