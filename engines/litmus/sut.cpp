// Instrumented TU: classic litmus tests written with std::atomic / plain accesses. They validate the simulator's
// own memory model and race detector (DESIGN.md §7): what must never be produced, and what must be reachable.
#include <atomic>
#include <new>
#include "../../sim/simrt.hpp"
#include "sut.hpp"
using A = std::atomic<uint64_t>;
static inline A &at(uint64_t &w) { return *reinterpret_cast<A *>(&w); }
static const auto RLX = std::memory_order_relaxed; static const auto ACQ = std::memory_order_acquire;
static const auto REL = std::memory_order_release; static const auto SC = std::memory_order_seq_cst;

extern "C" void litmus_construct(Shared *s) {
	new (&s->x) A(0); new (&s->y) A(0); new (&s->flag) A(0); new (&s->cnt) A(0); s->data = 0;
	new (s->mtx) sim::SimMutex();
}

extern "C" uint64_t litmus_run(int id, int t, Shared *s) {
	A &x = at(s->x), &y = at(s->y), &flag = at(s->flag), &cnt = at(s->cnt);
	sim::SimMutex &m = *reinterpret_cast<sim::SimMutex *>(s->mtx);
	switch (id) {
	case L_MP_RELACQ:
		if (t == 1) { s->data = 42; flag.store(1, REL); return 0; }
		if (t == 2) { if (flag.load(ACQ) == 1) return 100 + s->data; return 0; }
		return 0;
	case L_MP_RELAXED:
		if (t == 1) { s->data = 42; flag.store(1, RLX); return 0; }
		if (t == 2) { if (flag.load(RLX) == 1) return 100 + s->data; return 0; }
		return 0;
	case L_MP_FENCES:
		if (t == 1) { s->data = 42; std::atomic_thread_fence(REL); flag.store(1, RLX); return 0; }
		if (t == 2) { if (flag.load(RLX) == 1) { std::atomic_thread_fence(ACQ); return 100 + s->data; } return 0; }
		return 0;
	case L_MP_RELSEQ_SAMETHREAD: // release store followed by a relaxed store of the same thread (C++11 release sequence)
		if (t == 1) { s->data = 42; flag.store(1, REL); flag.store(2, RLX); return 0; }
		if (t == 2) { if (flag.load(ACQ) == 2) return 100 + s->data; return 0; }
		return 0;
	case L_SB_RELAXED:
		if (t == 1) { x.store(1, RLX); return y.load(RLX); }
		if (t == 2) { y.store(1, RLX); return x.load(RLX); }
		return 0;
	case L_SB_SC:
		if (t == 1) { x.store(1, SC); return y.load(SC); }
		if (t == 2) { y.store(1, SC); return x.load(SC); }
		return 0;
	case L_CORR:
		if (t == 1) { x.store(1, RLX); x.store(2, RLX); return 0; }
		if (t == 2) { uint64_t a = x.load(RLX); uint64_t b = x.load(RLX); return a * 10 + b; }
		return 0;
	case L_RMW_RELSEQ:
		if (t == 1) { s->data = 42; cnt.fetch_add(1, REL); return 0; }
		if (t == 2) { cnt.fetch_add(1, RLX); return 0; }
		if (t == 3) { if (cnt.load(ACQ) == 2) return 100 + s->data; return 0; }
		return 0;
	case L_MUTEX:
		m.lock(); s->data = s->data + 1; uint64_t v; v = s->data; m.unlock(); return v;
	case L_MIXED:
		if (t == 1) { s->x = 7; return 0; }              // plain write ...
		if (t == 2) { return x.load(ACQ); }              // ... against an atomic read of the same location
		return 0;
	case L_SPIN:
		if (t == 1) { s->data = 42; x.store(1, RLX); y.store(1, RLX); flag.store(1, REL); return 0; }
		if (t == 2) { while (flag.load(ACQ) == 0) { } return 100 + s->data; }
		return 0;
	case L_IRIW_ACQ:
		if (t == 1) { x.store(1, REL); return 0; }
		if (t == 2) { y.store(1, REL); return 0; }
		if (t == 3) { uint64_t a = x.load(ACQ); uint64_t b = y.load(ACQ); return a * 10 + b; }
		if (t == 4) { uint64_t a = y.load(ACQ); uint64_t b = x.load(ACQ); return a * 10 + b; }
		return 0;
	case L_IRIW_SC:
		if (t == 1) { x.store(1, SC); return 0; }
		if (t == 2) { y.store(1, SC); return 0; }
		if (t == 3) { uint64_t a = x.load(SC); uint64_t b = y.load(SC); return a * 10 + b; }
		if (t == 4) { uint64_t a = y.load(SC); uint64_t b = x.load(SC); return a * 10 + b; }
		return 0;
	case L_CAS_WEAK_LOOP: { // every task increments with a weak CAS loop: must terminate and lose no increment
		uint64_t c = cnt.load(RLX);
		while (!cnt.compare_exchange_weak(c, c + 1, RLX, RLX)) { }
		return 0; }
	}
	return 0;
}
