// simlitmus — validation of the simulator itself (not a property check): litmus tests with the outcomes the C++
// memory model forbids (must never appear), the weak outcomes it allows (must be reachable in relaxed-visibility
// mode) and the races the detector must / must not report.
#include "../common.hpp"
#include "sut.hpp"
#include <stdio.h>
#include <string.h>
using namespace sim;

static const char *lnames[L_N] = {"MP_rel_acq", "MP_relaxed", "MP_fences", "SB_relaxed", "SB_seq_cst", "CoRR", "RMW_release_sequence", "mutex", "mixed_plain_atomic", "spin_wait", "IRIW_acquire", "IRIW_seq_cst", "MP_same_thread_release_sequence", "weak_CAS_loop"};
static const int ltasks[L_N] = {2, 2, 2, 2, 2, 2, 3, 3, 2, 2, 4, 4, 2, 3};
enum { OP_PART = 0 };

struct LitmusEngine : Engine {
	Shared *s = nullptr; int id = 0; uint64_t obs[MAXT]; int mem = 0;
	int P_weak[L_N], P_runs[L_N];
	LitmusEngine() { for (int i = 0; i < L_N; i++) { char b[96]; snprintf(b, sizeof b, "weak_outcome:%s", lnames[i]); P_weak[i] = probe_id(b); snprintf(b, sizeof b, "runs:%s", lnames[i]); P_runs[i] = probe_id(b); } }
	const char *name() override { return "simlitmus"; }
	const char *op_name(int) override { return "part"; }
	int op_kind(const std::string &n) override { return n == "part" ? 0 : -1; }
	const char *cfg_name(int c) override { return c >= 0 && c < L_N ? lnames[c] : "?"; }
	const char *property_of(const std::string &, const std::string &) override { return "SIM"; }
	void generate(Rng &rng, Plan &p, const std::string &, int) override {
		p.cfg = (int)rng.below(L_N); if (p.knobs.count("force_cfg")) p.cfg = (int)p.knobs["force_cfg"];
		p.ntasks = ltasks[p.cfg];
		for (int t = 1; t <= p.ntasks; t++) { Op o; o.task = t; o.id = 0; o.kind = OP_PART; p.ops.push_back(o); }
		pick_strategy(rng, p, true);
		if (p.strat == S_SEQ) { p.strat = S_RAND; p.strat_arg = 2; }
	}
	void setup(const Plan &p) override { id = p.cfg; mem = p.mem; memset(obs, 0, sizeof obs); s = (Shared *)obj_alloc(sizeof(Shared), 64); litmus_construct(s); probe(P_runs[id]); }
	void exec(int me, const Op &) override { obs[me] = litmus_run(id, me, s); }
	void finish() override {
		auto forbid = [&](bool c, const char *what) { if (c) violation("forbidden_outcome", "%s: %s (obs %llu %llu %llu %llu, memory mode %s)", lnames[id], what, (unsigned long long)obs[1], (unsigned long long)obs[2], (unsigned long long)obs[3], (unsigned long long)obs[4], mem ? "relaxed" : "sc"); };
		switch (id) {
		case L_MP_RELACQ: case L_MP_FENCES: forbid(obs[2] == 100, "reader saw the flag but stale data"); break;
		case L_MP_RELSEQ_SAMETHREAD: break; // racy under C++20 (reported by the race detector); no outcome is forbidden
		case L_SB_RELAXED: if (obs[1] == 0 && obs[2] == 0) { forbid(mem == MEM_SC, "both loads 0 under interleaving semantics"); probe(P_weak[id]); } break;
		case L_SB_SC: forbid(obs[1] == 0 && obs[2] == 0, "both seq_cst loads returned 0"); break;
		case L_CORR: forbid(obs[2] == 21 || obs[2] == 10 || obs[2] == 20, "reads of one location went backwards in modification order"); if (obs[2] == 1 || obs[2] == 2 || obs[2] == 12) probe(P_weak[id]); break;
		case L_RMW_RELSEQ: forbid(obs[3] == 100, "acquire of an RMW-continued release sequence did not order the data"); break;
		case L_MUTEX: { uint64_t d; user_read(&s->data, 8); memcpy(&d, &s->data, 8); forbid(d != 3, "increments under the mutex were lost"); break; }
		case L_SPIN: forbid(obs[2] != 142, "spinner left the loop without seeing the data"); break;
		case L_IRIW_ACQ: if (obs[3] == 10 && obs[4] == 10) { forbid(mem == MEM_SC, "readers disagree on the order of two writes under interleaving semantics"); probe(P_weak[id]); } break;
		case L_IRIW_SC: forbid(obs[3] == 10 && obs[4] == 10, "seq_cst readers disagree on the order of two writes"); break;
		case L_CAS_WEAK_LOOP: { uint64_t c; user_read(&s->cnt, 8); memcpy(&c, &s->cnt, 8); forbid(c != 3, "an increment was lost in the weak-CAS loop"); break; }
		}
	}
};
Engine *sim::make_engine() { return new LitmusEngine(); }
