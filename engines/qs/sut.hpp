#pragma once
#include <stddef.h>
#include <stdint.h>
enum { MT_SIM = 0, MT_TICKET = 1, MT_SIMPLE = 2, MT_SIMTRY = 3, MT_N = 4 }; // SIMTRY: the simulated mutex with a try_lock() member
extern "C" {
size_t sut_domain_size(int mt);
size_t sut_agent_size(int mt);
size_t sut_node_size();
void sut_domain_construct(int mt, void *mem, int default_init);
void sut_agent_construct(int mt, void *mem, void *dom); // constructor goes online
void sut_online(int mt, void *ag);
void sut_offline(int mt, void *ag);
void sut_qs(int mt, void *ag);
void sut_barrier(int mt, void *ag);
void sut_await(int mt, void *ag, void *node);
void sut_run(int mt, void *ag);
void sut_node_construct(void *mem, void (*cb)(void *node));
int sut_agent_deferred(int mt, void *ag);
int sut_domain_age(int mt, void *dom, uint64_t periods);
}
