// Instrumented TU: the real qs_domain / qs_agent over SimMutex and the real spinlocks.
#include <new>
#include <type_traits>
#include <frg/spinlock.hpp>
#include <frg/qs.hpp>
#include "../../sim/simrt.hpp"
#include "sut.hpp"

using sim::SimMutex;
using sim::SimTryMutex;

// real spinlocks, with a per-task hold count so that the simulator knows who holds what
extern "C" uint32_t simh_lock_age(); // harness: 0, or a counter value just below 2^32 ("aged" ticket lock)
#ifndef SIM_TICKET_LAYOUT_PROBE
#define SIM_TICKET_LAYOUT_PROBE
static inline int sim_ticket_layout_ok() { // fresh lock + one lock()/unlock() pair == two 32-bit counters at 1 ?
	if (sizeof(frg::ticket_spinlock) != 8) return 0;
	alignas(8) unsigned char buf[8]; auto l = new (buf) frg::ticket_spinlock();
	l->lock(); l->unlock();
	unsigned int w[2]; __builtin_memcpy(w, buf, 8);
	return w[0] == 1 && w[1] == 1;
}
#endif
template <class L>
struct Counted : L {
	Counted() {
		// A ticket lock that has been acquired ~2^32 times has both counters near the wrap; instead of replaying that
		// history the run may start from that state. Relies on the lock being exactly two 32-bit counters (checked by size).
		if constexpr (sizeof(L) == 8 && std::is_base_of_v<frg::ticket_spinlock, L>) { static const int ok = sim_ticket_layout_ok(); uint32_t a = ok ? simh_lock_age() : 0; if (a) { uint32_t both[2] = {a, a}; __builtin_memcpy(static_cast<L *>(this), both, 8); } }
	}
	void lock() { L::lock(); sim::note_lock(+1); }
	void unlock() { sim::note_lock(-1); L::unlock(); }
};
using TicketM = Counted<frg::ticket_spinlock>;
using SimpleM = Counted<frg::simple_spinlock>;

#ifndef SIM_NO_PRIVATE_PEEK
// read-only access to the private deferred flag (explicit-instantiation access, no repo change)
template <class Tag, typename Tag::type M>
struct Rob { friend typename Tag::type get(Tag) { return M; } };
template <class Mx> struct DefTag { using type = bool frg::qs_agent<Mx>::*; friend type get(DefTag); };
template struct Rob<DefTag<SimMutex>, &frg::qs_agent<SimMutex>::_qs_deferred>;
template struct Rob<DefTag<TicketM>, &frg::qs_agent<TicketM>::_qs_deferred>;
template struct Rob<DefTag<SimpleM>, &frg::qs_agent<SimpleM>::_qs_deferred>;
template struct Rob<DefTag<SimTryMutex>, &frg::qs_agent<SimTryMutex>::_qs_deferred>;

#endif

#ifndef SIM_NO_PRIVATE_PEEK
// write access to the two period counters of a FRESH domain ("aged" domain: as if ~2^32 grace periods had passed)
template <class Mx> struct CtrTag { using type = std::atomic<uint64_t> frg::qs_domain<Mx>::*; friend type get(CtrTag); };
template <class Mx> struct DesTag { using type = std::atomic<uint64_t> frg::qs_domain<Mx>::*; friend type get(DesTag); };
template struct Rob<CtrTag<SimMutex>, &frg::qs_domain<SimMutex>::_qs_counter>;
template struct Rob<CtrTag<TicketM>, &frg::qs_domain<TicketM>::_qs_counter>;
template struct Rob<CtrTag<SimpleM>, &frg::qs_domain<SimpleM>::_qs_counter>;
template struct Rob<CtrTag<SimTryMutex>, &frg::qs_domain<SimTryMutex>::_qs_counter>;
template struct Rob<DesTag<SimMutex>, &frg::qs_domain<SimMutex>::_desired_qs_counter>;
template struct Rob<DesTag<TicketM>, &frg::qs_domain<TicketM>::_desired_qs_counter>;
template struct Rob<DesTag<SimpleM>, &frg::qs_domain<SimpleM>::_desired_qs_counter>;
template struct Rob<DesTag<SimTryMutex>, &frg::qs_domain<SimTryMutex>::_desired_qs_counter>;
#endif

#define DISPATCH(mt, EXPR) \
	switch (mt) { \
	case MT_SIM: { using M = SimMutex; EXPR; break; } \
	case MT_TICKET: { using M = TicketM; EXPR; break; } \
	case MT_SIMTRY: { using M = SimTryMutex; EXPR; break; } \
	default: { using M = SimpleM; EXPR; break; } }

extern "C" {
size_t sut_domain_size(int mt) { size_t r = 0; DISPATCH(mt, r = sizeof(frg::qs_domain<M>)); return r; }
size_t sut_agent_size(int mt) { size_t r = 0; DISPATCH(mt, r = sizeof(frg::qs_agent<M>)); return r; }
size_t sut_node_size() { return sizeof(frg::qs_node); }
// both initialisation forms (storage is garbage-filled): default-initialisation leaves everything to the constructor
void sut_domain_construct(int mt, void *mem, int default_init) { if (default_init) { DISPATCH(mt, new (mem) frg::qs_domain<M>); } else { DISPATCH(mt, new (mem) frg::qs_domain<M>()); } }
void sut_agent_construct(int mt, void *mem, void *dom) { DISPATCH(mt, new (mem) frg::qs_agent<M>(static_cast<frg::qs_domain<M> *>(dom))); }
void sut_online(int mt, void *ag) { DISPATCH(mt, static_cast<frg::qs_agent<M> *>(ag)->online()); }
void sut_offline(int mt, void *ag) { DISPATCH(mt, static_cast<frg::qs_agent<M> *>(ag)->offline()); }
void sut_qs(int mt, void *ag) { DISPATCH(mt, static_cast<frg::qs_agent<M> *>(ag)->quiescent_state()); }
void sut_barrier(int mt, void *ag) { DISPATCH(mt, static_cast<frg::qs_agent<M> *>(ag)->quiescent_barrier()); }
void sut_await(int mt, void *ag, void *node) { DISPATCH(mt, static_cast<frg::qs_agent<M> *>(ag)->await_barrier(static_cast<frg::qs_node *>(node))); }
void sut_run(int mt, void *ag) { DISPATCH(mt, static_cast<frg::qs_agent<M> *>(ag)->run()); }
int sut_domain_age(int mt, void *dom, uint64_t periods) { // only on a fresh domain with no agent yet; returns 0 if unsupported
#ifndef SIM_NO_PRIVATE_PEEK
	DISPATCH(mt, {
		auto d = static_cast<frg::qs_domain<M> *>(dom);
		if ((d->*get(CtrTag<M>())).load(std::memory_order_relaxed) != 1 || (d->*get(DesTag<M>())).load(std::memory_order_relaxed) != 0) return 0; // not the expected fresh state
		(d->*get(CtrTag<M>())).store(periods, std::memory_order_relaxed);
		(d->*get(DesTag<M>())).store(periods - 1, std::memory_order_relaxed);
	});
	return 1;
#else
	(void)mt; (void)dom; (void)periods; return 0;
#endif
}
void sut_node_construct(void *mem, void (*cb)(void *)) {
	auto n = new (mem) frg::qs_node();
	n->on_grace_period = reinterpret_cast<void (*)(frg::qs_node *)>(cb);
}
int sut_agent_deferred(int mt, void *ag) {
#ifndef SIM_NO_PRIVATE_PEEK
	int r = 0;
	DISPATCH(mt, r = static_cast<frg::qs_agent<M> *>(ag)->*get(DefTag<M>()));
	return r;
#else
	(void)mt; (void)ag;
	return -1; // unknown: the tree has no member of that name any more; the harness then treats the documented assertion as a stop
#endif
}
}
