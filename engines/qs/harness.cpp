// simqs — C11: qs_domain / qs_agent under an RCU client workload (DESIGN.md §3.4).
#include "../common.hpp"
#include "sut.hpp"
#include <stdio.h>
#include <stdlib.h>
#include <string.h>
#include <algorithm>
#include <deque>

using namespace sim;

enum { OP_ONLINE = 0, OP_OFFLINE, OP_READ, OP_QS, OP_UPDATE, OP_RUN, OP_BARRIER, OP_N };
static const char *op_names[OP_N] = {"online", "offline", "read", "qs", "update", "run", "barrier"};
static const char *cfg_names[MT_N] = {"M=SimMutex", "M=ticket_spinlock", "M=simple_spinlock", "M=SimMutex with try_lock()"};
static const uint64_t RECLAIMED = 0xDEADDEADDEADDEADull;

static int P_cb, P_rereg, P_deferred, P_join_mid, P_leave_mid, P_multi_pending, P_barrier_ret, P_deferred_stop, P_reads, P_held_reads, P_offline_run, P_closing_rounds, P_sync_reclaim, P_skipped, P_recycled, P_nested_run, P_update_in_cb, P_aged_domain, P_offline_register;

struct Interval { uint64_t begin, end; VC clk; };
struct Agent {
	void *mem = nullptr; bool constructed = false;
	int st = 0; // 0 offline, 1 online (stable), 2 in online(), 3 in offline()
	std::vector<Interval> ivs;
	std::vector<std::pair<int, uint64_t>> held; // (object, payload value seen when the pointer was obtained)
	bool in_run = false;
	int rounds = 0; bool closing = false;
};
struct Obj {
	char *mem; int state; // 0 live/published, 1 unlinked+registered, 2 reclaimed (callback started)
	int registrar = 0; uint64_t reg_stamp = 0; uint32_t snapshot = 0; int rereg = 0; int cb_count = 0; bool forbidden = false; bool cb_done = false; int flavour = 0; VC chan;
};

struct QsEngine;
static QsEngine *G;
static void cb_trampoline(void *node);

struct QsEngine : Engine {
	int mt = 0, nagents = 1;
	void *dom = nullptr;
	char *cell = nullptr; // harness atomic: pointer to the current object (as arena offset+1)
	Agent ag[MAXT];
	std::deque<Obj> objs;
	uint64_t evseq = 0;
	int pending = 0, n_closing = 0;
	size_t node_sz = 0;

	QsEngine() {
		G = this;
		P_cb = probe_id("callbacks_run"); P_rereg = probe_id("callback_reregistered_node"); P_deferred = probe_id("deferred_period_seen");
		P_join_mid = probe_id("agent_joined_while_barrier_pending"); P_leave_mid = probe_id("agent_left_while_barrier_pending"); P_multi_pending = probe_id("two_or_more_barriers_pending");
		P_barrier_ret = probe_id("quiescent_barrier_returned"); P_deferred_stop = probe_id("deferred_offline_stop"); P_reads = probe_id("reads"); P_held_reads = probe_id("held_pointer_revalidated");
		P_offline_run = probe_id("run_while_offline"); P_closing_rounds = probe_id("closing_rounds"); P_sync_reclaim = probe_id("reclaim_after_quiescent_barrier"); P_skipped = probe_id("ops_skipped_precondition"); P_recycled = probe_id("reclaimed_object_recycled_and_registered_again"); P_nested_run = probe_id("run_called_from_inside_a_callback"); P_update_in_cb = probe_id("await_barrier_for_another_node_from_inside_a_callback"); P_aged_domain = probe_id("aged_domain_period_counter_near_2^32"); P_offline_register = probe_id("await_barrier_by_an_offline_agent");
	}
	const char *name() override { return "simqs"; }
	const char *op_name(int k) override { return k >= 0 && k < OP_N ? op_names[k] : "?"; }
	int op_kind(const std::string &n) override { for (int i = 0; i < OP_N; i++) if (n == op_names[i]) return i; return -1; }
	const char *cfg_name(int c) override { return c >= 0 && c < MT_N ? cfg_names[c] : "?"; }
	const char *property_of(const std::string &cls, const std::string &) override { return "C11"; }
	bool panic_is_stop(const char *msg) override {
		// documented TODO in offline(): "We need to handle this case here" — the agent holding the deferred period cannot
		// go offline. Matched by the flag's name, tolerant of a rename that keeps the word (the op must be offline).
		if (cur_opkind() == OP_OFFLINE && (strstr(msg, "'!_qs_deferred'") || strstr(msg, "deferred"))) { probe(P_deferred_stop); return true; }
		return false;
	}
	void describe(std::map<std::string, std::string> &kv) override {
		kv["real_code"] = "frg::qs_domain, frg::qs_agent, frg::qs_node, frg::lock_guard (qs.hpp), frg::intrusive_list (list.hpp), frg::ticket_spinlock / simple_spinlock when selected — unmodified headers, TSan-ABI instrumented";
		kv["stubs"] = "SimMutex when selected; the RCU client (pointer cell, objects, readers, updaters, callbacks) is harness code whose atomics are always fresh";
	}

	void generate(Rng &rng, Plan &p, const std::string &profile, int tier) override {
		int c = (int)rng.below(100);
		p.cfg = c < 38 ? MT_SIM : c < 52 ? MT_SIMTRY : c < 76 ? MT_TICKET : MT_SIMPLE;
		if (p.knobs.count("force_cfg")) p.cfg = (int)p.knobs["force_cfg"];
		int a = (int)rng.below(10);
		p.ntasks = a < 1 ? 1 : a < 6 ? 2 : 3;
		int maxops = tier ? 40 : 14;
		for (int t = 1; t <= p.ntasks; t++) {
			int n = 3 + (int)rng.below(maxops);
			int id = 0;
			Op o; o.task = t; o.id = id++; o.kind = OP_ONLINE; p.ops.push_back(o);
			for (int i = 0; i < n; i++) {
				Op q; q.task = t; q.id = id++;
				int r = (int)rng.below(100);
				if (r < 25) { q.kind = OP_READ; q.a[0] = rng.chance(1, 2); }
				else if (r < 50) q.kind = OP_QS;
				else if (r < 65) { q.kind = OP_UPDATE; q.a[0] = rng.chance(1, 6); q.a[1] = rng.chance(1, 3); q.a[2] = rng.chance(1, 5) ? 1 + (int)rng.below(2) : 0; }
				else if (r < 80) q.kind = OP_RUN;
				else if (r < 85) { q.kind = OP_BARRIER; q.a[0] = rng.chance(1, 2); }
				else if (r < 92) q.kind = OP_OFFLINE;
				else q.kind = OP_ONLINE;
				p.ops.push_back(q);
			}
		}
		if (p.cfg == MT_TICKET && rng.chance(1, 3)) p.knobs["age"] = (int64_t)((rng.chance(1, 2) ? 0xFFFFFFFFu : 0x7FFFFFFFu) - (uint32_t)rng.below(6)); // aged domain mutex
		if (rng.chance(1, 4)) p.knobs["periods"] = (int64_t)(0x100000000ull - 1 - rng.below(4)); // a domain that has seen ~2^32 grace periods
		{ Rng ar; ar.seed(p.seed ^ 0x41474544ull); if (p.knobs.count("periods") && ar.chance(1, 3)) p.knobs["periods"] = (int64_t)(0x7FFFFFFFFFFFFFFFull - ar.below(5)); } // ... or ~2^63 (the sign bit of a 64-bit counter; knob values are signed, so 2^64 is not offered)
		// offline() of an agent that holds a deferred period is rejected by an assertion in the unchanged tree (documented TODO): normally the
		// harness skips that operation; in one plan of eight it is issued anyway — a tree that still rejects it ends the run without a verdict
		// (panic_is_stop), a tree that accepts it is judged like any other history
		{ Rng dr; dr.seed(p.seed ^ 0x44454645ull); if (dr.chance(1, 8)) p.knobs["allow_deferred_offline"] = 1; }
		pick_strategy(rng, p, true);
	}

	uint64_t obj_gen = 0;
	int new_obj(bool recycle = false) {
		if (recycle) {
			// type-stable memory: an object whose callback has run is free for reuse; its qs_node is registered again later
			for (size_t i = 0; i < objs.size(); i++) if (objs[i].state == 2 && objs[i].cb_done) {
				Obj &o = objs[i];
				hb_acquire(o.chan);
				o.state = 0; o.forbidden = false; o.cb_done = false; o.registrar = 0; o.rereg = 0;
				uint64_t v = 0x100000 + (++obj_gen << 8) + i;
				user_write(o.mem, 8); memcpy(o.mem, &v, 8);
				probe(P_recycled);
				return (int)i;
			}
		}
		Obj o; o.mem = (char *)obj_alloc(16 + ((node_sz + 15) & ~15), 64); o.state = 0; o.chan.clear();
		uint64_t v = 0x1000 + objs.size();
		user_write(o.mem, 8); memcpy(o.mem, &v, 8);
		sut_node_construct(o.mem + 16, cb_trampoline);
		objs.push_back(o);
		return (int)objs.size() - 1;
	}

	void setup(const Plan &p) override {
		mt = p.cfg; nagents = p.ntasks; evseq = 0; pending = 0; n_closing = 0; cb_depth = 0; obj_gen = 0;
		objs.clear(); node_sz = sut_node_size();
		for (int t = 0; t < MAXT; t++) ag[t] = Agent();
		dom = obj_alloc(sut_domain_size(mt), 64);
		sut_domain_construct(mt, dom, (int)((p.seed >> 4) & 1));
		if (p.knobs.count("periods")) { if (sut_domain_age(mt, dom, (uint64_t)p.knob("periods"))) probe(P_aged_domain); }
		for (int t = 1; t <= nagents; t++) ag[t].mem = obj_alloc(sut_agent_size(mt), 64);
		cell = (char *)obj_alloc(8, 64);
		int first = new_obj();
		user_atomic_store(cell, 8, (uint64_t)first + 1, true);
	}

	void on_access(int task, const void *addr, size_t n, bool write, bool atomic) override {
		uint64_t o = off(addr);
		for (auto &ob : objs) if (ob.forbidden) {
			uint64_t b = off(ob.mem + 16);
			if (o < b + node_sz && o + n > b)
				violation("touch_after_callback", "library code %s node of object #%d (+%llu) after its callback started (task %d)", write ? "writes" : "reads", (int)(&ob - &objs[0]), (unsigned long long)(o - b), task);
		}
	}

	uint32_t snapshot_online() { uint32_t m = 0; for (int t = 1; t <= nagents; t++) if (ag[t].st == 1) m |= 1u << t; return m; }

	void open_iv(int t) { Interval iv; iv.begin = ++evseq; iv.end = UINT64_MAX; iv.clk = task_clock(t); ag[t].ivs.push_back(iv); }
	void close_iv(int t) { ag[t].ivs.back().end = ++evseq; }

	void check_grace(const char *what, uint32_t snap, uint64_t reg, int self) {
		for (int t = 1; t <= nagents; t++) {
			if (!(snap & (1u << t)) || t == self) continue;
			const Interval *q = nullptr;
			for (auto &iv : ag[t].ivs) if (iv.end > reg) { q = &iv; break; }
			if (!q) violation("premature_callback", "%s although agent %d, online at registration (event %llu), has not been inside quiescent_state() or offline since", what, t, (unsigned long long)reg);
			if (!q->clk.leq(my_clock()))
				violation("missing_hb", "%s: what agent %d did before entering its quiescent state (event %llu, clock[%d]=%u) does not happen-before this point (my view of agent %d: %u)", what, t, (unsigned long long)q->begin, t, q->clk.c[t], t, my_clock().c[t]);
		}
	}

	void on_callback(void *node) {
		int me = cur_task();
		int idx = -1;
		for (size_t i = 0; i < objs.size(); i++) if (objs[i].mem + 16 == (char *)node) idx = (int)i;
		if (idx < 0) violation("callback_wrong_context", "callback invoked with an unknown node");
		Obj &o = objs[idx];
		if (o.state != 1) violation("callback_twice", "callback of object #%d invoked although it is not pending (state %d, invoked %d time(s) before)", idx, o.state, o.cb_count);
		if (me != o.registrar || !ag[me].in_run) violation("callback_wrong_context", "callback of object #%d (registered by agent %d) invoked by task %d %s run()", idx, o.registrar, me, ag[me].in_run ? "inside" : "outside");
		o.cb_count++; probe(P_cb);
		logev(0x3001, (uint64_t)idx, (uint64_t)me);
		char what[96]; snprintf(what, sizeof what, "callback of object #%d runs", idx);
		check_grace(what, o.snapshot, o.reg_stamp, -1);
		o.state = 2; o.forbidden = true;
		if (o.rereg > 0 && ag[me].st == 1) {
			o.rereg--; probe(P_rereg);
			o.state = 1; o.forbidden = false; o.registrar = me; o.reg_stamp = ++evseq; o.snapshot = snapshot_online();
			sut_await(mt, ag[me].mem, node);
			return;
		}
		user_write(o.mem, 8); memcpy(o.mem, &RECLAIMED, 8);
		hb_release(objs[idx].chan); // the reclaimer hands the memory to whoever recycles it (free-list synchronisation of the user)
		int flavour = objs[idx].flavour; objs[idx].flavour = 0;
		if (flavour == 1 && cb_depth < 2) { // a callback may call run() itself
			probe(P_nested_run); cb_depth++; sut_run(mt, ag[me].mem); cb_depth--;
		} else if (flavour == 2 && ag[me].st == 1 && cb_depth < 2) { // ... or unlink and register ANOTHER object
			probe(P_update_in_cb);
			int n = new_obj(false);
			int old = (int)user_atomic_exchange(cell, 8, (uint64_t)n + 1) - 1;
			Obj &x = objs[old];
			x.state = 1; x.registrar = me; x.rereg = 0; pending++;
			x.snapshot = snapshot_online(); x.reg_stamp = ++evseq;
			cb_depth++; sut_await(mt, ag[me].mem, x.mem + 16); cb_depth--;
		}
		objs[idx].cb_done = true;
		pending--; // last: other agents leave the closing phase as soon as nothing is pending
	}
	int cb_depth = 0;

	void revalidate(int me) {
		for (auto &hp : ag[me].held) {
			int h = hp.first;
			probe(P_held_reads);
			user_read(objs[h].mem, 8);
			uint64_t v; memcpy(&v, objs[h].mem, 8);
			if (v == RECLAIMED) violation("reader_saw_reclaimed", "agent %d still holds object #%d (obtained since its last quiescent state) but it was already reclaimed", me, h);
			if (v != hp.second) violation("reader_saw_reclaimed", "agent %d still holds object #%d (obtained since its last quiescent state) but it was reclaimed and recycled meanwhile (payload %llx -> %llx)", me, h, (unsigned long long)hp.second, (unsigned long long)v);
		}
		ag[me].held.clear();
	}

	void do_qs(int me) {
		revalidate(me);
		open_iv(me);
		sut_qs(mt, ag[me].mem);
		close_iv(me);
		if (sut_agent_deferred(mt, ag[me].mem) > 0) probe(P_deferred);
	}
	void do_run(int me) {
		if (ag[me].st != 1) probe(P_offline_run);
		ag[me].in_run = true;
		sut_run(mt, ag[me].mem);
		ag[me].in_run = false;
	}

	void exec(int me, const Op &op) override {
		Agent &a = ag[me];
		switch (op.kind) {
		case OP_ONLINE:
			if (a.st != 0) { probe(P_skipped); return; }
			if (pending) probe(P_join_mid);
			a.st = 2;
			if (!a.constructed) { a.constructed = true; sut_agent_construct(mt, a.mem, dom); } else sut_online(mt, a.mem);
			if (!a.ivs.empty() && a.ivs.back().end == UINT64_MAX) close_iv(me);
			a.st = 1;
			break;
		case OP_OFFLINE:
			if (a.st != 1) { probe(P_skipped); return; }
			if (sut_agent_deferred(mt, a.mem) > 0 && !plan().knob("allow_deferred_offline", 0)) { probe(P_deferred_stop); return; } // documented TODO in offline(): precondition, not a finding
			if (pending) probe(P_leave_mid);
			revalidate(me);
			a.st = 3;
			open_iv(me); // offline interval stays open until the next online() has returned
			sut_offline(mt, a.mem);
			a.st = 0;
			break;
		case OP_READ: {
			if (a.st != 1) { probe(P_skipped); return; }
			probe(P_reads);
			uint64_t v = user_atomic_load(cell, 8, true);
			int idx = (int)v - 1;
			user_read(objs[idx].mem, 8);
			uint64_t pv; memcpy(&pv, objs[idx].mem, 8);
			if (pv == RECLAIMED) violation("reader_saw_reclaimed", "agent %d read the current object #%d and found it reclaimed", me, idx);
			if (op.a[0]) a.held.push_back({idx, pv});
			break; }
		case OP_QS:
			if (a.st != 1) { probe(P_skipped); return; }
			do_qs(me);
			break;
		case OP_UPDATE: {
			// (await_barrier has no online precondition: an agent that is offline may retire an object too)
			if (a.st != 1 && !(a.st == 0 && a.constructed)) { probe(P_skipped); return; }
			if (a.st == 0) probe(P_offline_register);
			int n = new_obj(op.a[1] != 0);
			int old = (int)user_atomic_exchange(cell, 8, (uint64_t)n + 1) - 1;
			Obj &o = objs[old];
			o.state = 1; o.registrar = me; o.rereg = op.a[0] ? 1 : 0; o.flavour = o.rereg ? 0 : (int)op.a[2];
			if (pending >= 1) probe(P_multi_pending);
			pending++;
			o.snapshot = snapshot_online(); o.reg_stamp = ++evseq;
			sut_await(mt, a.mem, o.mem + 16);
			break; }
		case OP_RUN:
			if (!a.constructed) { probe(P_skipped); return; }
			do_run(me);
			break;
		case OP_BARRIER: {
			if (a.st != 1) { probe(P_skipped); return; }
			revalidate(me);
			int old = -1;
			if (op.a[0]) { int n = new_obj(false); old = (int)user_atomic_exchange(cell, 8, (uint64_t)n + 1) - 1; objs[old].state = 1; objs[old].registrar = -1; pending++; }
			uint32_t snap = snapshot_online();
			open_iv(me);
			uint64_t reg = ag[me].ivs.back().begin;
			sut_barrier(mt, a.mem);
			close_iv(me);
			probe(P_barrier_ret);
			check_grace("quiescent_barrier() returned", snap, reg, me);
			if (old >= 0) { probe(P_sync_reclaim); objs[old].state = 2; user_write(objs[old].mem, 8); memcpy(objs[old].mem, &RECLAIMED, 8); hb_release(objs[old].chan); objs[old].cb_done = true; pending--; }
			break; }
		}
	}

	void end_of_plan(int me) override {}

	void closing(int me) override {
		// liveness: every online agent keeps reporting quiescent states, everybody keeps calling run().
		// Rounds are synchronised: round i+1 starts only when every agent finished round i, so
		// "within N rounds" means every agent did N quiescent states + run() calls, in lock step.
		Agent &a = ag[me];
		n_closing++;
		const int bound = 4 * nagents + 8;
		int own = 0;
		while (true) {
			bool counting = n_closing == nagents;
			if (counting) {
				if (pending == 0) break;
				if (a.rounds > bound) break;
			}
			if (++own > 1000 * bound) break;
			probe(P_closing_rounds);
			if (getenv("SIMQS_TRACE")) fprintf(stderr, "closing t%d own=%d rounds=%d pending=%d st=%d step=%llu\n", me, own, a.rounds, pending, a.st, (unsigned long long)now());
			if (a.st == 1) do_qs(me);
			if (a.constructed) do_run(me);
			progress();
			if (counting) {
				a.rounds++;
				while (pending > 0) {
					int mn = 1 << 30; for (int t = 1; t <= nagents; t++) mn = std::min(mn, ag[t].rounds);
					if (mn >= a.rounds) break;
					yield();
				}
			} else yield();
		}
		a.rounds = 1 << 29; // left the loop: do not hold the others back
	}

	void finish() override {
		if (pending > 0) {
			int idx = -1; for (size_t i = 0; i < objs.size(); i++) if (objs[i].state == 1) { idx = (int)i; break; }
			int online = 0; for (int t = 1; t <= nagents; t++) online += ag[t].st == 1;
			violation(online ? "lost_grace_period" : "lost_grace_period:no_agent_online", "%d callback(s) never ran although every online agent reported more than %d quiescent states and every agent kept calling run() (first: object #%d registered by agent %d)", pending, 4 * nagents + 8, idx, idx >= 0 ? objs[idx].registrar : 0);
		}
	}

	std::vector<Op> simplify(const Op &o) override {
		std::vector<Op> v;
		if ((o.kind == OP_READ || o.kind == OP_UPDATE || o.kind == OP_BARRIER) && o.a[0]) { Op c = o; c.a[0] = 0; v.push_back(c); }
		if (o.kind == OP_UPDATE && o.a[1]) { Op c = o; c.a[1] = 0; v.push_back(c); }
		if (o.kind == OP_UPDATE && o.a[2]) { Op c = o; c.a[2] = 0; v.push_back(c); }
		return v;
	}
};

static void cb_trampoline(void *node) { G->on_callback(node); }
extern "C" uint32_t simh_lock_age() { return (uint32_t)plan().knob("age", 0); }
Engine *sim::make_engine() { return new QsEngine(); }
