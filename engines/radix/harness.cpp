// simradix — C09 (sequential configuration) and C10 (1 writer + lock-free readers). DESIGN.md §3.3.
#include "../common.hpp"
#include "sut.hpp"
#include <stdio.h>
#include <stdlib.h>
#include <string.h>
#include <algorithm>
#include <deque>
#include <set>

using namespace sim;

enum { W_INSERT = 0, W_FOI, W_ERASE, W_FIND, W_VERIFY, W_ITER, W_GRACE, W_ANNOUNCE, R_FIND, W_SWEEP, OP_N };
static const char *op_names[OP_N] = {"insert", "find_or_insert", "erase", "wfind", "verify_all", "iterate", "grace", "announce", "find", "sweep"};

static int P_case1, P_case2, P_case3, P_split_top, P_find_during_split, P_reader_found, P_reader_null, P_mustfind_checked, P_reinserts, P_erased_never_destroyed, P_skipped, P_grace_ok, P_grace_fail, P_iter, P_foi_present, P_stale_found_erased, P_lifetime_anomaly, P_plain, P_val_dtor_in_run, P_ptrmode, P_alignmode, P_sweep, P_sweep_big, P_writer_stalled;

struct Ins { uint64_t key, seq; char *addr; uint64_t inv, ret; uint32_t ret_wclk; uint64_t erase_inv, erase_ret; };
struct Blk { char *p; size_t n; bool freed; };

struct RadixEngine;
static RadixEngine *G;

struct RadixEngine : Engine {
	void *tree = nullptr;
	std::deque<Ins> ins;
	std::map<uint64_t, int> present;
	std::map<uint64_t, std::vector<int>> by_key;
	std::map<uint64_t, uint64_t> erase_gen;
	std::set<uint64_t> universe;
	std::vector<Blk> blks;
	uint64_t evseq = 0, gp_gen = 1;
	int nreaders = 0, allocs_in_op = 0;
	bool inflight[MAXT]; uint64_t opcount[MAXT]; bool rdone[MAXT];
	VC gp_chan, ann_chan, rchan[MAXT];
	bool destroyed = false, plain = false; int vmode = 0; uint64_t nfinds = 0;
	std::set<const char *> recs; // mode 2: the records the user stored pointers to
	size_t vsize() const { return sut_value_size(vmode); }
	void check_aligned(const char *cls, const char *what, const char *p) { size_t al = sut_value_align(vmode); if ((uintptr_t)p % al) violation(cls, "%s: returned address +0x%llx is not aligned to %zu, the alignment of the value type", what, (unsigned long long)off(p), al); }
	// the value as the user sees it through the pointer find() returned; false: (mode 2) the slot does not hold a pointer the user stored
	bool load_val(const char *p, RVal &v) {
		if (vmode != 2) { user_read(p, sizeof v); memcpy(&v, p, sizeof v); return true; }
		const char *r; user_read(p, sizeof r); memcpy(&r, p, sizeof r);
		if (!r || !recs.count(r)) { memset(&v, 0, sizeof v); v.key = (uint64_t)(uintptr_t)r; return false; }
		memcpy(&v, r, sizeof v); return true;
	}
	std::map<const char *, uint64_t> present_addr; // address of every present key's value
	std::set<const char *> alive; // mode 0: value objects whose constructor has run and whose destructor has not
	void val_ctor(void *p) { alive.insert((const char *)p); }
	void val_dtor(void *p) { if (!destroyed) probe(P_val_dtor_in_run); alive.erase((const char *)p); }
	std::string profile;

	RadixEngine() {
		G = this;
		P_case1 = probe_id("insert_case1_new_leaf"); P_case2 = probe_id("insert_case2_split"); P_case3 = probe_id("insert_case3_into_leaf");
		P_split_top = probe_id("split_at_most_significant_nibble"); P_find_during_split = probe_id("find_in_flight_during_split");
		P_reader_found = probe_id("reader_find_nonnull"); P_reader_null = probe_id("reader_find_null"); P_mustfind_checked = probe_id("must_find_premise_held");
		P_reinserts = probe_id("reinsert_after_grace"); P_erased_never_destroyed = probe_id("erased_value_never_destroyed"); P_skipped = probe_id("ops_skipped_precondition");
		P_grace_ok = probe_id("grace_period_completed"); P_grace_fail = probe_id("grace_period_gave_up"); P_iter = probe_id("iterations"); P_foi_present = probe_id("find_or_insert_on_present_key");
		P_stale_found_erased = probe_id("relaxed_reader_found_erased_value"); P_lifetime_anomaly = probe_id("node_lifetime_anomaly(C16_radix_clause:not_claimed,not_reported)");
		P_plain = probe_id("runs_with_argument-less_insert_of_a_plain_value_type"); P_val_dtor_in_run = probe_id("value_destructor_ran_while_the_tree_was_in_use"); P_ptrmode = probe_id("runs_with_a_raw_pointer_value_type"); P_alignmode = probe_id("runs_with_an_over-aligned_value_type"); P_sweep = probe_id("sweep:many_adjacent_leaves_emptied_then_iterated_and_partly_refilled"); P_sweep_big = probe_id("sweep:more_than_10000_adjacent_emptied_leaves"); P_writer_stalled = probe_id("runs_with_the_writer_stalled_for_as_long_as_the_readers_run");
	}
	const char *name() override { return "simradix"; }
	const char *op_name(int k) override { return k >= 0 && k < OP_N ? op_names[k] : "?"; }
	int op_kind(const std::string &n) override { for (int i = 0; i < OP_N; i++) if (n == op_names[i]) return i; return -1; }
	const char *cfg_name(int c) override { return c == 0 ? "writer-only" : "writer+readers"; }
	const char *property_of(const std::string &cls, const std::string &prof) override {
		static const char *c09[] = {"map_wrong_result", "map_lost_key", "map_duplicate_value", "address_moved", "iteration_order", "node_leak", nullptr};
		for (int i = 0; c09[i]; i++) if (cls == c09[i]) return "C09";
		if (cls.rfind("reader_", 0) == 0 || cls == "data_race") return "C10";
		return prof == "C09" ? "C09" : "C10";
	}
	void describe(std::map<std::string, std::string> &kv) override {
		kv["real_code"] = "frg::rcu_radixtree<T,Allocator> (find, find_or_insert, insert, erase, iterator, destructor), frg::construct/destruct — unmodified headers, TSan-ABI instrumented";
		kv["stubs"] = "SimAlloc (bump allocator over a garbage-filled arena, every block registered); readers' validation and the harness-level grace period are harness code";
	}

	static uint64_t nib(uint64_t k, int pos, uint64_t v) { int sh = 60 - 4 * pos; return (k & ~(0xFull << sh)) | (v << sh); }

	void generate(Rng &rng, Plan &p, const std::string &prof, int tier) override {
		bool c09 = prof == "C09";
		p.cfg = c09 ? 0 : 1;
		p.ntasks = c09 ? 1 : 2 + (int)rng.below(3);
		if (!c09 && rng.chance(1, 12)) p.ntasks = 1;
		// key universe
		std::vector<uint64_t> U;
		int nclusters = 1 + (int)rng.below(3);
		for (int c = 0; c < nclusters; c++) {
			uint64_t B = rng.next();
			switch (rng.below(5)) { case 0: B = 0; break; case 1: B = ~0ull; break; case 2: B &= 0xFFFF; break; default: break; }
			U.push_back(B);
			if (rng.chance(1, 6)) { // a completely full leaf (all 16 indices) ...
				for (uint64_t v = 0; v < 16; v++) U.push_back((B & ~0xFull) | v);
			} else if (rng.chance(1, 6)) { // ... or a completely full inner node: all 16 values of one nibble position
				int pos = (int)rng.below(15);
				for (uint64_t v = 0; v < 16; v++) U.push_back(nib(B, pos, v));
			}
			int m = 1 + (int)rng.below(5);
			for (int i = 0; i < m; i++) {
				switch (rng.below(6)) {
				case 0: U.push_back(nib(B, 0, rng.below(16))); break;                       // differ at most significant nibble
				case 1: U.push_back(nib(B, (int)rng.below(16), rng.below(16))); break;      // differ at any nibble
				case 2: U.push_back((B & ~0xFull) | rng.below(16)); break;                  // same leaf
				case 3: U.push_back(B + 16 * (1 + rng.below(4))); break;                    // neighbouring leaves
				case 4: U.push_back(nib(nib(B, (int)rng.below(16), rng.below(16)), (int)rng.below(16), rng.below(16))); break;
				default: U.push_back(rng.next()); break;
				}
			}
		}
		if (rng.chance(1, 4)) U.push_back(0);
		if (rng.chance(1, 4)) U.push_back(~0ull);
		auto key = [&]() { return (int64_t)U[rng.below(U.size())]; };
		int wn = 4 + (int)rng.below(tier ? 80 : 30);
		int id = 0;
		for (int i = 0; i < wn; i++) {
			Op o; o.task = 1; o.id = id++;
			int r = (int)rng.below(100);
			if (r < 38) { o.kind = W_INSERT; o.a[0] = key(); }
			else if (r < 52) { o.kind = W_FOI; o.a[0] = key(); }
			else if (r < 67) { o.kind = W_ERASE; o.a[0] = key(); }
			else if (r < 76) { o.kind = W_FIND; o.a[0] = key(); }
			else if (r < 81) o.kind = W_VERIFY;
			else if (r < 88) o.kind = W_ITER;
			else if (r < 95) o.kind = W_GRACE;
			else o.kind = W_ANNOUNCE;
			p.ops.push_back(o);
		}
		if (c09) { // long runs of adjacent leaves that become completely empty (they are never unlinked), iterated over and partly refilled
			Rng sr; sr.seed(p.seed ^ 0x53574550ull);
			bool big = sr.chance(1, tier ? 6000 : 30000) || getenv("SIMRADIX_FORCE_BIG_SWEEP"); // (the environment variable is a debugging aid)
			if (big || sr.chance(1, 150)) {
				Op o; o.task = 1; o.id = id++; o.kind = W_SWEEP;
				o.a[0] = (int64_t)(U[sr.below(U.size())] & ~0xFFFFFull); o.a[1] = big ? 14000 + (int64_t)sr.below(6000) : 66 + (int64_t)sr.below(100); o.a[2] = (int64_t)sr.below(16); o.a[3] = big ? 0 : (int64_t)sr.below(3);
				p.ops.insert(p.ops.begin() + (long)sr.below(p.ops.size() + 1), o);
				if (big) { p.knobs["sweep_big"] = 1; p.knobs["cap1"] = 80000000; }
			}
		}
		for (int t = 2; t <= p.ntasks; t++) {
			int n = 3 + (int)rng.below(tier ? 60 : 25);
			for (int i = 0; i < n; i++) { Op o; o.task = t; o.id = i; o.kind = R_FIND; o.a[0] = key(); o.a[1] = rng.chance(1, 5); p.ops.push_back(o); }
		}
		if (c09 && rng.chance(1, 4)) p.knobs["plain"] = 1; // plain value type, inserted without constructor arguments
		{ Rng vr; vr.seed(p.seed ^ 0x50545256ull); if (!p.knobs.count("plain")) { if (vr.chance(1, 6)) p.knobs["vmode"] = 2; else if (vr.chance(1, 8)) p.knobs["vmode"] = 3; } } // value type is a raw pointer / over-aligned
		// long stall of the writer (C10): taken off the CPU at a random step of its script — possibly in the middle of an insert or a split —
		// for as long as the readers run; a present key must still be found, and no lookup may wait for the writer
		if (!c09 && p.ntasks > 1) { Rng lr; lr.seed(p.seed ^ 0x4c53544cull); if (lr.chance(1, 20)) { p.knobs["stall_hold"] = 1; p.knobs["stall_task"] = 1; p.knobs["stall_from"] = (int64_t)lr.below((uint64_t)wn * 120 + 50); p.knobs["force_stall"] = 1; } }
		if (p.knobs.count("sweep_big")) { p.knobs["vmode"] = 2; p.knobs.erase("plain"); } // 8-byte values: tens of thousands of leaves must fit into the object zone
		pick_strategy(rng, p, !c09);
		if (p.knobs.count("force_stall")) { p.strat = S_STALL; p.strat_arg = 3; }
	}

	void setup(const Plan &p) override {
		profile = p.profile;
		ins.clear(); present.clear(); present_addr.clear(); by_key.clear(); erase_gen.clear(); universe.clear(); blks.clear();
		evseq = 0; gp_gen = 1; nreaders = p.ntasks - 1; destroyed = false; allocs_in_op = 0;
		for (auto &o : p.ops) if (o.kind != W_VERIFY && o.kind != W_ITER && o.kind != W_GRACE && o.kind != W_ANNOUNCE && o.kind != W_SWEEP) universe.insert((uint64_t)o.a[0]);
		for (auto &o : p.ops) if (o.kind == W_SWEEP && o.a[1] <= 512) for (int64_t i = 0; i < o.a[1]; i++) universe.insert(sweep_key(o, i));
		for (int t = 0; t < MAXT; t++) { inflight[t] = false; opcount[t] = 0; rdone[t] = false; rchan[t].clear(); }
		gp_chan.clear(); ann_chan.clear();
		plain = p.knob("plain", 0) != 0 && p.ntasks == 1; alive.clear(); recs.clear(); nfinds = 0; if (plain) probe(P_plain);
		if (p.knob("stall_hold", 0)) probe(P_writer_stalled);
		vmode = plain ? 1 : (p.knob("vmode", 0) == 2 ? 2 : p.knob("vmode", 0) == 3 ? 3 : 0); if (vmode == 2) probe(P_ptrmode); if (vmode == 3) probe(P_alignmode);
		tree = obj_alloc(sut_tree_size(), 64);
		sut_tree_construct(tree, vmode);
	}

	void *do_alloc(size_t n) {
		sync_hook(); // a call into the allocator is a visible action (a preemption point between the tree's accesses before and after it)
		char *p = (char *)obj_alloc(n, std::max<size_t>(16, sut_value_align(vmode))); // (the Allocator concept has no alignment argument: blocks are aligned like malloc's, and to the value type if that asks for more) // (the Allocator concept has no alignment argument: an allocator for over-aligned values returns suitably aligned blocks)
		blks.push_back({p, n, false});
		allocs_in_op++;
		return p;
	}
	// Node and value lifetimes are the radix clause of C16, which is not claimed (DESIGN.md §3.3/§4): anomalies are counted
	// as a probe and never reported — C09 and C10 say nothing about what the destructor frees.
	// (blocks come from a bump allocator: blks is sorted by address)
	Blk *blk_at(const char *p) { auto it = std::upper_bound(blks.begin(), blks.end(), p, [](const char *v, const Blk &b) { return v < b.p; }); if (it == blks.begin()) return nullptr; --it; return p < it->p + it->n ? &*it : nullptr; }
	void do_free(void *p, size_t n) {
		if (!destroyed) sync_hook();
		Blk *b = blk_at((const char *)p);
		if (!b || b->p != p) { probe(P_lifetime_anomaly); return; }
		if (b->freed || (n && n != b->n)) probe(P_lifetime_anomaly);
		b->freed = true;
	}
	bool in_node(const char *p) { Blk *b = blk_at(p); return b && !b->freed && p + vsize() <= b->p + b->n; }

	void check_value(const char *what, char *p, uint64_t k, uint64_t seq) {
		if (!in_arena(p) || !in_node(p)) violation("map_wrong_result", "%s: returned pointer %p is not inside a node the tree allocated", what, p);
		check_aligned("map_wrong_result", what, p);
		if (vmode == 0 && !alive.count(p)) violation("map_wrong_result", "%s(key 0x%llx): the value object at +0x%llx has been destroyed (or was never constructed)", what, (unsigned long long)k, (unsigned long long)off(p));
		RVal v;
		if (!load_val(p, v)) violation("map_wrong_result", "%s(key 0x%llx): the pointer value at +0x%llx is %p, which is not a pointer stored in the tree", what, (unsigned long long)k, (unsigned long long)off(p), (void *)(uintptr_t)v.key);
		if (v.key != k || v.seq != seq || v.check != (~k ^ seq))
			violation("map_wrong_result", "%s(key 0x%llx): value at +0x%llx holds {key 0x%llx, seq %llu}, expected seq %llu", what, (unsigned long long)k, (unsigned long long)off(p), (unsigned long long)v.key, (unsigned long long)v.seq, (unsigned long long)seq);
	}

	void writer_find_check(const char *what, uint64_t k) {
		char *p = (char *)sut_find(tree, k, (int)(nfinds++ & 1));
		auto it = present.find(k);
		if (it == present.end()) {
			if (p) violation("map_wrong_result", "%s: find(0x%llx) returned +0x%llx but the key is not present", what, (unsigned long long)k, (unsigned long long)off(p));
			return;
		}
		Ins &I = ins[it->second];
		if (!p) violation("map_lost_key", "%s: find(0x%llx) returned null but the key was inserted (seq %llu) and not erased", what, (unsigned long long)k, (unsigned long long)I.seq);
		if (p != I.addr) violation("address_moved", "%s: find(0x%llx) returned +0x%llx but the value was inserted at +0x%llx", what, (unsigned long long)k, (unsigned long long)off(p), (unsigned long long)off(I.addr));
		check_value(what, p, k, I.seq);
	}

	void do_insert(uint64_t k, bool via_foi) {
		auto eg = erase_gen.find(k);
		if (eg != erase_gen.end()) {
			if (eg->second >= gp_gen) { probe(P_skipped); return; } // RCU contract: no re-insert before a grace period
			probe(P_reinserts);
		}
		Ins I{}; I.key = k; I.seq = ins.size() + 1; I.inv = ++evseq;
		ins.push_back(I);
		int idx = (int)ins.size() - 1;
		by_key[k].push_back(idx);
		allocs_in_op = 0;
		bool top_differs = !present.empty();
		{ auto it = present.lower_bound(k & (0xFull << 60)); if (it != present.end() && (it->first >> 60) == (k >> 60)) top_differs = false; }
		bool reader_inflight = false; for (int t = 2; t <= nreaders + 1; t++) reader_inflight |= inflight[t];
		char *p; char *rec = nullptr;
		if (vmode == 2) { RVal v{k, ins[idx].seq, ~k ^ ins[idx].seq}; rec = (char *)obj_alloc(sizeof v, 8); memcpy(rec, &v, sizeof v); recs.insert(rec); }
		if (via_foi) {
			int inserted = -1;
			p = (char *)sut_find_or_insert(tree, k, ins[idx].seq, &inserted, rec);
			if (inserted != 1) violation("map_wrong_result", "find_or_insert(0x%llx) on an absent key reported inserted=%d", (unsigned long long)k, inserted);
		} else p = (char *)sut_insert(tree, k, ins[idx].seq, rec);
		ins[idx].addr = p; ins[idx].ret = ++evseq; ins[idx].ret_wclk = my_clock().c[1];
		if (allocs_in_op == 1) probe(P_case1); else if (allocs_in_op == 2) { probe(P_case2); if (top_differs) probe(P_split_top); if (reader_inflight) probe(P_find_during_split); } else probe(P_case3);
		if (!p) violation("map_wrong_result", "insert(0x%llx) returned null", (unsigned long long)k);
		{ auto pa = present_addr.find(p); if (pa != present_addr.end() && present.count(pa->second)) violation("map_duplicate_value", "insert(0x%llx) returned +0x%llx which is the address of present key 0x%llx", (unsigned long long)k, (unsigned long long)off(p), (unsigned long long)pa->second); }
		if (plain) {
			// inserted without constructor arguments: a NEW value-initialised object, whatever the slot held before; the user fills it in
			if (!in_arena(p) || !in_node(p)) violation("map_wrong_result", "insert: returned pointer %p is not inside a node the tree allocated", p);
			RVal z; char got[64], want[64]; size_t vs = vsize(); user_read(p, vs); memcpy(got, p, vs); memcpy(&z, p, sizeof z); sut_plain_init(want);
			if (memcmp(got, want, vs)) violation("map_wrong_result", "insert(0x%llx) without arguments returned a value holding {0x%llx, %llu, 0x%llx, ...} whose bytes differ from a value-initialised object of the type (the value most recently inserted is a new object; a null pointer-to-member is not all-zero bits)", (unsigned long long)k, (unsigned long long)z.key, (unsigned long long)z.seq, (unsigned long long)z.check);
			RVal v{k, ins[idx].seq, ~k ^ ins[idx].seq}; user_write(p, sizeof v); memcpy(p, &v, sizeof v);
		}
		check_value("insert", p, k, ins[idx].seq);
		present[k] = idx; erase_gen.erase(k); present_addr[p] = k;
	}

	static uint64_t sweep_key(const Op &o, int64_t i) { return (uint64_t)o.a[0] + (uint64_t)i * (16ull << (4 * (o.a[3] % 3))); } // one key per leaf (stride 16, 256 or 4096)
	void do_erase(uint64_t k) {
		auto it = present.find(k);
		if (it == present.end()) return;
		Ins &I = ins[it->second];
		I.erase_inv = ++evseq;
		sut_erase(tree, k);
		I.erase_ret = ++evseq;
		present_addr.erase(I.addr);
		present.erase(it); erase_gen[k] = gp_gen;
	}
	void verify_all(const char *what) { for (uint64_t k : universe) writer_find_check(what, k); }

	struct IterCtx { RadixEngine *e; std::vector<char *> got; };
	static void iter_cb(void *val, void *ctx) {
		IterCtx *c = (IterCtx *)ctx;
		if (!val) violation("iteration_order", "iterator equality is inconsistent: a copy compares unequal, or two successive positions compare equal (after %zu values)", c->got.size());
		c->got.push_back((char *)val);
		if (c->got.size() > c->e->present.size() + 4) violation("iteration_order", "iteration yielded more than %zu values although only %zu keys are present", c->got.size() - 1, c->e->present.size());
	}
	void do_iterate() {
		probe(P_iter);
		IterCtx c{this, {}};
		sut_iterate(tree, iter_cb, &c);
		size_t i = 0;
		for (auto &kv : present) {
			if (i >= c.got.size()) violation("iteration_order", "iteration ended after %zu values but %zu keys are present (missing key 0x%llx)", c.got.size(), present.size(), (unsigned long long)kv.first);
			if (c.got[i] != ins[kv.second].addr) {
				uint64_t gk = 0; if (in_arena(c.got[i]) && in_node(c.got[i])) memcpy(&gk, c.got[i], 8);
				violation("iteration_order", "iteration position %zu yields value of key 0x%llx (+0x%llx), expected key 0x%llx in ascending order", i, (unsigned long long)gk, (unsigned long long)off(c.got[i]), (unsigned long long)kv.first);
			}
			i++;
		}
		if (c.got.size() != present.size()) violation("iteration_order", "iteration yielded %zu values but only %zu keys are present", c.got.size(), present.size());
	}

	void reader_find(int me, const Op &op) {
		uint64_t k = (uint64_t)op.a[0];
		inflight[me] = true;
		hb_acquire(gp_chan);
		if (op.a[1]) hb_acquire(ann_chan);
		uint64_t inv = ++evseq;
		uint32_t inv_wclk = my_clock().c[1];
		bool sc = plan().mem == MEM_SC;
		char *p = (char *)sut_find(tree, k, (int)(opcount[me] & 1));
		if (p) {
			probe(P_reader_found);
			if (!in_arena(p) || !in_node(p)) violation("reader_bad_value", "find(0x%llx) returned %p which is not inside a node", (unsigned long long)k, p);
			check_aligned("reader_bad_value", "find", p);
			if (vmode == 0 && !alive.count(p)) violation("reader_destroyed_value", "reader %d: find(0x%llx) returned +0x%llx, a value object whose destructor has already run: not a fully initialised value", me, (unsigned long long)k, (unsigned long long)off(p));
			RVal v;
			if (!load_val(p, v)) violation("reader_bad_value", "reader %d: find(0x%llx) returned +0x%llx, which holds the pointer %p: not a value that was stored under the key", me, (unsigned long long)k, (unsigned long long)off(p), (void *)(uintptr_t)v.key);
			uint64_t ret = ++evseq; (void)ret;
			if (v.key != k || v.check != (~v.key ^ v.seq) || v.seq == 0 || v.seq > ins.size() || ins[v.seq - 1].key != k)
				violation("reader_bad_value", "reader %d: find(0x%llx) returned +0x%llx holding {key 0x%llx, seq %llu, check %s}: not a fully initialised value stored under the requested key", me, (unsigned long long)k, (unsigned long long)off(p), (unsigned long long)v.key, (unsigned long long)v.seq, v.check == (~v.key ^ v.seq) ? "ok" : "BAD");
			Ins &I = ins[v.seq - 1];
			if (I.addr && I.addr != p) violation("reader_bad_value", "reader %d: find(0x%llx) returned +0x%llx but that value (seq %llu) lives at +0x%llx", me, (unsigned long long)k, (unsigned long long)off(p), (unsigned long long)v.seq, (unsigned long long)off(I.addr));
			if (I.erase_ret && I.erase_ret < inv) {
				if (sc) violation("reader_stale_value", "reader %d: find(0x%llx) began at event %llu and returned the value seq %llu whose erase had returned at event %llu", me, (unsigned long long)k, (unsigned long long)inv, (unsigned long long)v.seq, (unsigned long long)I.erase_ret);
				probe(P_stale_found_erased);
			}
		} else {
			probe(P_reader_null);
			uint64_t ret = ++evseq;
			auto it = by_key.find(k);
			if (it != by_key.end()) for (int idx : it->second) {
				Ins &I = ins[idx];
				bool before = I.ret && (sc ? I.ret < inv : inv_wclk >= I.ret_wclk);
				if (!before) continue;
				if (I.erase_inv && I.erase_inv < ret) continue;
				violation("reader_lost_key", "reader %d: find(0x%llx) returned null although insert seq %llu had returned %s the find began (event %llu < %llu) and no erase of it was invoked before the find returned", me, (unsigned long long)k, (unsigned long long)I.seq, sc ? "before" : "and happened-before", (unsigned long long)I.ret, (unsigned long long)inv);
			}
			if (it != by_key.end()) for (int idx : it->second) { Ins &I = ins[idx]; if (I.ret && I.ret < inv && !I.erase_inv) probe(P_mustfind_checked); }
		}
		if (p) { auto it = by_key.find(k); (void)it; }
		hb_release(rchan[me]);
		opcount[me]++;
		inflight[me] = false;
	}

	void exec(int me, const Op &op) override {
		if (op.kind == R_FIND) { if (me == 1) return; reader_find(me, op); return; }
		if (me != 1) return;
		uint64_t k = (uint64_t)op.a[0];
		switch (op.kind) {
		case W_INSERT:
			if (present.count(k)) { probe(P_skipped); return; }
			do_insert(k, false);
			break;
		case W_FOI:
			if (present.count(k)) {
				probe(P_foi_present);
				int inserted = -1; Ins &I = ins[present[k]];
				char *p = (char *)sut_find_or_insert(tree, k, 0xBAD, &inserted, nullptr);
				if (inserted != 0) violation("map_duplicate_value", "find_or_insert(0x%llx) on a present key reported inserted=%d", (unsigned long long)k, inserted);
				if (p != I.addr) violation("map_duplicate_value", "find_or_insert(0x%llx) on a present key returned +0x%llx instead of the existing value at +0x%llx", (unsigned long long)k, (unsigned long long)off(p), (unsigned long long)off(I.addr));
				check_value("find_or_insert(present)", p, k, I.seq);
			} else do_insert(k, true);
			break;
		case W_ERASE:
			if (!present.count(k)) { probe(P_skipped); return; }
			do_erase(k);
			break;
		case W_SWEEP: {
			if (nreaders) { probe(P_skipped); return; } // sequential configuration only (a grace period is then trivial)
			int64_t K = op.a[1]; int fl = (int)op.a[2];
			probe(P_sweep); if (K > 10000) probe(P_sweep_big);
			for (int64_t i = 0; i < K; i++) { uint64_t x = sweep_key(op, i); if (!present.count(x)) do_insert(x, false); progress(); }
			for (int64_t i = (fl & 1) ? 1 : 0; i < K - 1; i++) { do_erase(sweep_key(op, i)); progress(); }
			do_iterate();
			gp_gen++; // no readers: every find that could hold an erased value has returned
			for (int j = 0; j <= (fl >> 1) % 3 && K > 3; j++) { uint64_t x = sweep_key(op, 1 + (int64_t)((((uint64_t)op.a[0] >> 20) + (uint64_t)j * 7919u) % (uint64_t)(K - 2))); if (!present.count(x)) do_insert(x, (fl & 8) != 0); }
			do_iterate();
			for (int64_t i = 0; i < K; i += K > 512 ? K / 64 : 1) writer_find_check("sweep", sweep_key(op, i));
			break; }
		case W_FIND: writer_find_check("find", k); break;
		case W_VERIFY: verify_all("verify"); break;
		case W_ITER: do_iterate(); break;
		case W_ANNOUNCE: hb_release(ann_chan); break;
		case W_GRACE: {
			hb_release(gp_chan);
			uint64_t snap[MAXT]; bool need[MAXT];
			for (int t = 2; t <= nreaders + 1; t++) { snap[t] = opcount[t]; need[t] = inflight[t]; }
			bool ok = false;
			for (int tries = 0; tries < 400; tries++) {
				ok = true;
				for (int t = 2; t <= nreaders + 1; t++) if (need[t] && opcount[t] == snap[t] && !rdone[t]) ok = false;
				if (ok) break;
				yield();
			}
			if (!ok) { probe(P_grace_fail); return; }
			for (int t = 2; t <= nreaders + 1; t++) hb_acquire(rchan[t]);
			gp_gen++; probe(P_grace_ok);
			break; }
		}
	}

	void end_of_plan(int me) override { rdone[me] = true; bool all = true; for (int t = 2; t <= nreaders + 1; t++) all &= rdone[t]; if (all) stall_release(); }
	// Readers are lock-free: a lookup is a bounded descent and completes on its own steps, whatever the writer does (or does
	// not do — it may be preempted for good in the middle of an insert). A find that re-reads unchanged locations is waiting.
	void on_park(int task) override {
		if (task >= 2 && inflight[task]) violation("reader_blocked", "reader %d: find() keeps re-reading unchanged locations — it waits for the writer (which may be preempted indefinitely) instead of completing on its own", task);
	}

	void finish() override {
		verify_all("final verify");
		do_iterate();
		for (auto &kv : erase_gen) (void)kv, probe(P_erased_never_destroyed);
		destroyed = true;
		sut_tree_destroy(tree);
		for (auto &b : blks) if (!b.freed) { probe(P_lifetime_anomaly); break; }
	}

	std::vector<Op> simplify(const Op &o) override {
		std::vector<Op> v;
		if (o.kind == R_FIND && o.a[1]) { Op c = o; c.a[1] = 0; v.push_back(c); }
		if (o.kind == W_FOI) { Op c = o; c.kind = W_INSERT; v.push_back(c); }
		if (o.kind == W_SWEEP) { if (o.a[1] > 8) { Op c = o; c.a[1] = o.a[1] / 2; v.push_back(c); Op d = o; d.a[1] = o.a[1] - 1; v.push_back(d); } if (o.a[2]) { Op c = o; c.a[2] = 0; v.push_back(c); } }
		return v;
	}
};

extern "C" void *radix_alloc(size_t n) { return G->do_alloc(n); }
extern "C" void radix_free(void *p, size_t n) { G->do_free(p, n); }
extern "C" void radix_val_ctor(void *p) { G->val_ctor(p); }
extern "C" void radix_val_dtor(void *p) { G->val_dtor(p); }
extern "C" void radix_evil_addr(void) { violation("map_wrong_result", "the tree took the address of a value with unary & although the value type overloads operator& (the address of a stored value is that of its storage: std::addressof)"); }
extern "C" void radix_arg_moved(void) { violation("map_wrong_result", "insert/find_or_insert moved from an argument the caller passed as an lvalue (arguments must be forwarded: the caller's object is gutted, and what it inserts next is not what it meant to)"); }
Engine *sim::make_engine() { return new RadixEngine(); }
