// Instrumented TU: the real rcu_radixtree over a simulated allocator.
#include <new>
#include <frg/rcu_radixtree.hpp>
#include "sut.hpp"

struct SimAlloc {
	void *allocate(size_t n) { return radix_alloc(n); }
	void deallocate(void *p, size_t n) { radix_free(p, n); }
	void free(void *p) { radix_free(p, 0); }
};
using Tree = frg::rcu_radixtree<RVal, SimAlloc>;

extern "C" {
size_t sut_tree_size() { return sizeof(Tree); }
void sut_tree_construct(void *mem) { new (mem) Tree(); }
void sut_tree_destroy(void *mem) { static_cast<Tree *>(mem)->~Tree(); }
void *sut_find(void *tree, uint64_t key) { return static_cast<Tree *>(tree)->find(key); }
void *sut_find_or_insert(void *tree, uint64_t key, uint64_t seq, int *inserted) {
	auto r = static_cast<Tree *>(tree)->find_or_insert(key, key, seq, ~key ^ seq);
	*inserted = r.get<1>();
	return r.get<0>();
}
void *sut_insert(void *tree, uint64_t key, uint64_t seq) { return static_cast<Tree *>(tree)->insert(key, key, seq, ~key ^ seq); }
void sut_erase(void *tree, uint64_t key) { static_cast<Tree *>(tree)->erase(key); }
void sut_iterate(void *tree, void (*cb)(void *, void *), void *ctx) {
	auto t = static_cast<Tree *>(tree);
	bool flip = false;
	// two styles: operator* with !=, and operator-> with == ; successive positions must compare unequal, a copy equal
	for (auto it = t->begin(); it != t->end();) {
		auto here = it;
		if (!(here == it) || here != it) cb(nullptr, ctx); // a copy must compare equal
		cb((flip = !flip) ? &*it : it.operator->(), ctx);
		++it;
		if (here == it) cb(nullptr, ctx);                  // the next position must differ from the previous one
	}
}
}
