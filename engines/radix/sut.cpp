// Instrumented TU: the real rcu_radixtree over a simulated allocator.
#include <new>
#include <memory>
#include <frg/rcu_radixtree.hpp>
#include "sut.hpp"

struct SimAlloc {
	void *allocate(size_t n) { return radix_alloc(n); }
	void deallocate(void *p, size_t n) { radix_free(p, n); }
	void free(void *p) { radix_free(p, 0); }
};
// mode 0: a value whose lifetime is visible to the harness (a value handed to a reader must not have been destroyed)
// the key argument is passed as an lvalue of a type that notices being moved from: insert() must forward, not move
struct Arg { uint64_t v; bool moved = false; explicit Arg(uint64_t x) : v(x) {} Arg(const Arg &o) : v(o.v) {} Arg(Arg &&o) : v(o.v) { o.moved = true; } };
struct SVal : RVal {
	SVal(Arg k, uint64_t s, uint64_t c) : RVal{k.v, s, c} { radix_val_ctor(this); }
	SVal(const SVal &) = delete;
	~SVal() { radix_val_dtor(this); }
};
using Tree = frg::rcu_radixtree<SVal, SimAlloc>;
// mode 1: a plain aggregate whose value-initialised representation is not all-zero bytes (a null pointer-to-member is not)
struct PlainVal { uint64_t key, seq, check; uint64_t RVal::*pm; };
using PTree = frg::rcu_radixtree<PlainVal, SimAlloc>;
// mode 3: an over-aligned value type (the allocator then hands out 64-byte aligned blocks)
// ... which also overloads unary operator& (generic code has to use std::addressof / placement addresses, not &value)
struct alignas(64) AVal : RVal {
	AVal(uint64_t k, uint64_t s, uint64_t c) : RVal{k, s, c} {}
	AVal *operator&() { radix_evil_addr(); return nullptr; }
	const AVal *operator&() const { radix_evil_addr(); return nullptr; }
};
using ATree = frg::rcu_radixtree<AVal, SimAlloc>;
using QTree = frg::rcu_radixtree<RVal *, SimAlloc>; // mode 2: the value is a raw pointer to a record the user owns
static int g_mode = 0;
// find() through a const reference where the tree type offers that (the unchanged tree does not): every second lookup
template <class T>
static auto do_find(T *t, uint64_t key, int via_const) {
	if constexpr (requires(const T &c) { c.find(key); }) { if (via_const) return const_cast<decltype(t->find(key))>(static_cast<const T *>(t)->find(key)); }
	return t->find(key);
}
static_assert(sizeof(SVal) == sizeof(RVal));

template <class T>
static void iterate(T *t, void (*cb)(void *, void *), void *ctx) {
	bool flip = false;
	// two styles: operator* with !=, and operator-> with == ; successive positions must compare unequal, a copy equal
	for (auto it = t->begin(); it != t->end();) {
		auto here = it;
		if (!(here == it) || here != it) cb(nullptr, ctx); // a copy must compare equal
		cb((flip = !flip) ? (void *)std::addressof(*it) : (void *)it.operator->(), ctx);
		++it;
		if (here == it) cb(nullptr, ctx);                  // the next position must differ from the previous one
	}
}

extern "C" {
size_t sut_tree_size() { size_t n = sizeof(Tree); if (sizeof(PTree) > n) n = sizeof(PTree); if (sizeof(QTree) > n) n = sizeof(QTree); if (sizeof(ATree) > n) n = sizeof(ATree); return n; }
size_t sut_value_size(int mode) { return mode == 3 ? sizeof(AVal) : mode == 2 ? sizeof(RVal *) : mode == 1 ? sizeof(PlainVal) : sizeof(SVal); }
size_t sut_value_align(int mode) { return mode == 3 ? alignof(AVal) : mode == 2 ? alignof(RVal *) : mode == 1 ? alignof(PlainVal) : alignof(SVal); }
void sut_plain_init(void *out) { PlainVal v{}; __builtin_memcpy(out, &v, sizeof v); } // what a value-initialised mode-1 value looks like
void sut_tree_construct(void *mem, int mode) { g_mode = mode; if (mode == 3) new (mem) ATree(); else if (mode == 2) new (mem) QTree(); else if (mode) new (mem) PTree(); else new (mem) Tree(); }
void sut_tree_destroy(void *mem) { if (g_mode == 3) static_cast<ATree *>(mem)->~ATree(); else if (g_mode == 2) static_cast<QTree *>(mem)->~QTree(); else if (g_mode) static_cast<PTree *>(mem)->~PTree(); else static_cast<Tree *>(mem)->~Tree(); }
void *sut_find(void *tree, uint64_t key, int via_const) {
	if (g_mode == 3) return static_cast<RVal *>(do_find(static_cast<ATree *>(tree), key, via_const));
	if (g_mode == 2) return do_find(static_cast<QTree *>(tree), key, via_const);
	if (g_mode) return do_find(static_cast<PTree *>(tree), key, via_const);
	return static_cast<RVal *>(do_find(static_cast<Tree *>(tree), key, via_const));
}
void *sut_find_or_insert(void *tree, uint64_t key, uint64_t seq, int *inserted, void *rec) {
	if (g_mode == 2) { auto r = static_cast<QTree *>(tree)->find_or_insert(key, static_cast<RVal *>(rec)); *inserted = r.get<1>(); return r.get<0>(); }
	if (g_mode == 3) { auto r = static_cast<ATree *>(tree)->find_or_insert(key, key, seq, ~key ^ seq); *inserted = r.get<1>(); return static_cast<RVal *>(r.get<0>()); }
	if (g_mode) { auto r = static_cast<PTree *>(tree)->find_or_insert(key); *inserted = r.get<1>(); return r.get<0>(); }
	Arg a(key); uint64_t chk = ~key ^ seq;
	auto r = static_cast<Tree *>(tree)->find_or_insert(key, a, seq, chk);
	if (a.moved) radix_arg_moved();
	*inserted = r.get<1>();
	return static_cast<RVal *>(r.get<0>());
}
void *sut_insert(void *tree, uint64_t key, uint64_t seq, void *rec) {
	if (g_mode == 2) return static_cast<QTree *>(tree)->insert(key, static_cast<RVal *>(rec));
	if (g_mode == 3) return static_cast<RVal *>(static_cast<ATree *>(tree)->insert(key, key, seq, ~key ^ seq));
	if (g_mode) return static_cast<PTree *>(tree)->insert(key);
	Arg a(key); uint64_t chk = ~key ^ seq;
	auto p = static_cast<Tree *>(tree)->insert(key, a, seq, chk);
	if (a.moved) radix_arg_moved();
	return static_cast<RVal *>(p);
}
void sut_erase(void *tree, uint64_t key) { if (g_mode == 3) static_cast<ATree *>(tree)->erase(key); else if (g_mode == 2) static_cast<QTree *>(tree)->erase(key); else if (g_mode) static_cast<PTree *>(tree)->erase(key); else static_cast<Tree *>(tree)->erase(key); }
void sut_iterate(void *tree, void (*cb)(void *, void *), void *ctx) { if (g_mode == 3) iterate(static_cast<ATree *>(tree), cb, ctx); else if (g_mode == 2) iterate(static_cast<QTree *>(tree), cb, ctx); else if (g_mode) iterate(static_cast<PTree *>(tree), cb, ctx); else iterate(static_cast<Tree *>(tree), cb, ctx); }
}
