#pragma once
#include <stddef.h>
#include <stdint.h>
struct RVal { uint64_t key, seq, check; };
extern "C" {
// provided by the harness (uninstrumented)
void *radix_alloc(size_t n);
void radix_free(void *p, size_t n);
void radix_val_ctor(void *p); // a value object came into existence at p / its destructor runs (mode 0 only)
void radix_val_dtor(void *p);
void radix_arg_moved(void);
void radix_evil_addr(void); // the tree applied unary & to a value whose type overloads it // insert()/find_or_insert() moved from an lvalue argument
// instrumented glue
// mode 0: value type with a user-provided constructor (key, seq, check) and destructor, both reporting to the harness;
// mode 1: the plain aggregate RVal, inserted WITHOUT constructor arguments (value-initialised), filled in by the user afterwards;
// mode 2: the value type is a raw pointer (RVal *) to a record the user owns (rec); find() returns the address of that pointer
// mode 3: an over-aligned (alignas(64)) value type
size_t sut_tree_size();
size_t sut_value_size(int mode);
size_t sut_value_align(int mode);
void sut_plain_init(void *out);
void sut_tree_construct(void *mem, int mode);
void sut_tree_destroy(void *mem);
void *sut_find(void *tree, uint64_t key, int via_const);
void *sut_find_or_insert(void *tree, uint64_t key, uint64_t seq, int *inserted, void *rec);
void *sut_insert(void *tree, uint64_t key, uint64_t seq, void *rec);
void sut_erase(void *tree, uint64_t key);
void sut_iterate(void *tree, void (*cb)(void *val, void *ctx), void *ctx);
}
