#pragma once
#include <stddef.h>
namespace sim { struct SimMutex; }
enum { LT_TICKET = 0, LT_SIMPLE = 1 };
enum { GT_UNIQUE = 0, GT_SHARED = 1, GT_QS = 2 };
enum { GO_CTOR_LOCK = 0, GO_CTOR_DEFER, GO_CTOR_ADOPT, GO_CTOR_DEFAULT, GO_LOCK, GO_UNLOCK, GO_MOVE_CTOR, GO_MOVE_ASSIGN, GO_SWAP, GO_DESTROY, GO_IS_LOCKED, GO_PROTECTS, GO_GUARD_LOCK, GO_GUARD_DEFER, GO_COPY_CTOR, GO_COPY_ASSIGN, GO_GUARD_ADOPT, GO_SGUARD_LOCK, GO_SGUARD_DEFER, GO_SGUARD_ADOPT, GO_N };
extern "C" {
size_t sut_lock_size(int type);
void sut_lock_construct(int type, void *mem, int default_init);
void sut_lock(int type, void *l);
void sut_unlock(int type, void *l);
int sut_is_locked(int type, void *l);
void sut_guarded(int type, void *l, void (*body)(void *), void *arg);
size_t sut_guard_size(int gt);
// m: address of a 1-byte, alignment-1 proxy mutex object (its lock()/unlock() calls reach the harness as simh_px_*(this))
int sut_guard_op(int gt, int op, void *a, void *b, void *m);
int sut_guard_has(int gt, int op); // does this guard type offer the operation at all (decided at compile time from the tree under test)?
int sut_ticket_layout_ok();
}
