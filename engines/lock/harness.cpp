// simlock — C12: spinlocks (real frigg code at atomic-access granularity) and lock guards
// (real unique_lock / shared_lock / QS lock_guard over the instrumented SimMutex).
#include "../common.hpp"
#include <algorithm>
#include <new>
#include <vector>
#include "sut.hpp"
#include <stdio.h>
#include <string.h>
#include <deque>

using namespace sim;

enum { OP_CS = 0, OP_PEEK, OP_THINK, OP_G, OP_HAMMER, OP_N };
static const char *op_names[OP_N] = {"cs", "peek", "think", "guard", "hammer"};
static const char *go_names[] = {"ctor_lock", "ctor_defer", "ctor_adopt", "ctor_default", "lock", "unlock", "move_ctor", "move_assign", "swap", "destroy", "is_locked", "protects", "guard()", "guard(dont_lock)", "copy_ctor(+destroy both)", "copy_assign(+destroy both)", "guard(adopt_lock)", "shared_guard()", "shared_guard(dont_lock)", "shared_guard(adopt_lock)"};
enum { CFG_TICKET = 0, CFG_SIMPLE, CFG_GUARDS, CFG_QSGUARD, CFG_N };
static const char *cfg_names[CFG_N] = {"ticket_spinlock", "simple_spinlock", "unique_lock+shared_lock<1-byte proxy of SimMutex>", "qs::lock_guard<1-byte proxy of SimMutex>"};

static int P_is_locked_misreport, P_throwing, P_aged, P_contended, P_cs, P_guard_ops, P_guard_skipped, P_move_onto_owner, P_swap_both, P_handover, P_is_locked_checked, P_blocked_on_guard, P_adopt, P_odd_mutex, P_qs_extra_ops, P_copy_ops, P_hammer, P_hammer_big, P_hammer_release_inside;

struct Slot { bool exists = false; int mutex = -1; bool owns = false; };

static bool throw_armed_t[MAXT]; // per task: the next acquisition by that task throws
struct LockEngine;
static LockEngine *GL;
extern "C" int simh_lock_should_throw() { int t = cur_task(); if (throw_armed_t[t]) { throw_armed_t[t] = false; return 1; } return 0; }

struct LockEngine : Engine {
	int cfg = 0, ltype = 0, nlocks = 1; bool aged = false;
	void *locks[2]; char *words[2]; // 4 words per lock
	int in_cs[2]; int holder[2];
	std::deque<int> tickets[2];
	bool ticketed[MAXT][2]; int acquiring[MAXT];
	SimMutex *mtx[2]; char *px[2]; // px: the 1-byte proxy objects the guards see (at odd addresses in some runs)
	SimMutex *resolve(void *p, const char *what) {
		for (int i = 0; i < nlocks; i++) if (px[i] == (char *)p) return mtx[i];
		violation("guard_wrong_object", "a guard called %s() on %p, which is not the address of a mutex it was given (mutexes live at %p%s%p)", what, p, (void *)px[0], nlocks > 1 ? " and " : "", nlocks > 1 ? (void *)px[1] : nullptr);
		return nullptr;
	}
	void *slots[MAXT][4]; Slot model[MAXT][4];
	char *priv[MAXT];
	uint64_t cs_entries = 0;

	LockEngine() {
		P_is_locked_misreport = probe_id("spinlock_is_locked_disagrees_with_holder_view(not_a_C12_clause)"); P_throwing = probe_id("mutex_lock_threw_inside_guard"); P_aged = probe_id("aged_ticket_lock_counters_near_wraparound"); P_contended = probe_id("lock_contended"); P_cs = probe_id("critical_sections"); P_guard_ops = probe_id("guard_ops");
		P_guard_skipped = probe_id("guard_ops_skipped_precondition"); P_move_onto_owner = probe_id("move_assign_onto_owning_guard");
		P_swap_both = probe_id("swap_two_owning_guards"); P_handover = probe_id("lock_handover_between_tasks");
		P_is_locked_checked = probe_id("is_locked_checked_by_holder"); P_blocked_on_guard = probe_id("guard_ctor_contended"); P_adopt = probe_id("adopt_lock");
		P_odd_mutex = probe_id("guard_runs_with_mutex_at_odd_address"); P_qs_extra_ops = probe_id("qs_lock_guard_offers_move/copy/swap(op_executed)"); P_copy_ops = probe_id("guard_copy_ops_executed(type_is_copyable)");
		P_hammer = probe_id("long_stall:one_task_off_the_CPU_while_another_does_a_power_of_two_of_acquisitions"); P_hammer_big = probe_id("long_stall:65535..65537_acquisitions"); P_hammer_release_inside = probe_id("long_stall:victim_resumed_while_the_other_task_holds_the_lock");
		GL = this;
	}
	const char *name() override { return "simlock"; }
	const char *op_name(int k) override { return k >= 0 && k < OP_N ? op_names[k] : "?"; }
	int op_kind(const std::string &n) override { for (int i = 0; i < OP_N; i++) if (n == op_names[i]) return i; return -1; }
	const char *cfg_name(int c) override { return c >= 0 && c < CFG_N ? cfg_names[c] : "?"; }
	const char *property_of(const std::string &, const std::string &) override { return "C12"; }
	void describe(std::map<std::string, std::string> &kv) override {
		kv["real_code"] = "frg::ticket_spinlock, frg::simple_spinlock, frg::unique_lock, frg::shared_lock, frg::lock_guard (qs.hpp) — unmodified headers, TSan-ABI instrumented";
		kv["stubs"] = "SimMutex (scheduler-level mutex with owner/kind accounting) behind a 1-byte alignment-1 proxy mutex type under the guards; critical-section body and scripts are harness code";
		kv["guard_op_codes"] = "0 ctor_lock,1 ctor_defer,2 ctor_adopt,3 ctor_default,4 lock,5 unlock,6 move_ctor,7 move_assign,8 swap,9 destroy,10 is_locked,11 protects,12 frg::guard(m),13 frg::guard(dont_lock,m),14 copy-construct then destroy both,15 copy-assign then destroy both (14/15 and, for the QS guard, 6-8 only if the type offers them)";
	}

	void generate(Rng &rng, Plan &p, const std::string &profile, int tier) override {
		int c = (int)rng.below(100);
		p.cfg = c < 35 ? CFG_TICKET : c < 60 ? CFG_SIMPLE : c < 90 ? CFG_GUARDS : CFG_QSGUARD;
		if (p.knobs.count("force_cfg")) p.cfg = (int)p.knobs["force_cfg"];
		int maxops = tier ? 30 : 12;
		if (p.cfg <= CFG_SIMPLE) {
			p.ntasks = 2 + (int)rng.below(3);
			p.knobs["nlocks"] = 1 + (int)rng.below(2);
			// aged lock: a ticket lock that has been acquired ~2^32 times, so that the counters wrap during the run
			if (p.cfg == CFG_TICKET && rng.chance(2, 5)) p.knobs["age"] = (int64_t)((rng.chance(1, 2) ? 0xFFFFFFFFu : 0x7FFFFFFFu) - (uint32_t)rng.below(4)); // just below the 2^32 wrap or the 2^31 sign flip
			for (int t = 1; t <= p.ntasks; t++) {
				int n = 1 + (int)rng.below(maxops);
				for (int i = 0; i < n; i++) {
					Op o; o.task = t; o.id = i;
					int r = (int)rng.below(10);
					if (r < 7) { o.kind = OP_CS; o.a[0] = rng.below(p.knobs["nlocks"]); o.a[1] = 1 + rng.below(3); o.a[2] = rng.chance(1, 4); o.a[3] = rng.chance(1, 2); }
					else if (r < 8) { o.kind = OP_PEEK; o.a[0] = rng.below(p.knobs["nlocks"]); }
					else { o.kind = OP_THINK; o.a[0] = 1 + rng.below(4); }
					p.ops.push_back(o);
				}
			}
			pick_strategy(rng, p, true);
			// Long stall ("slow node"): task 1 is taken off the CPU somewhere inside its lock()/unlock() while task 2 acquires the lock
			// 2^8 or 2^16 (-1, +0, +1) times, and comes back either afterwards or while task 2 holds the lock once more. Counters
			// narrower than the lock's history wrap RELATIVE to what the stalled task last saw, which ageing the lock cannot produce.
			{ Rng hr; hr.seed(p.seed ^ 0x48414d4dull);
			  if (hr.chance(1, tier ? 400 : 1500)) {
				p.ops.clear(); p.ntasks = 2; p.knobs["nlocks"] = 1;
				bool big = hr.chance(1, 2);
				Op a; a.task = 1; a.id = 0; a.kind = OP_CS; a.a[0] = 0; a.a[1] = 1; a.a[2] = hr.chance(1, 4); a.a[3] = 0; p.ops.push_back(a);
				if (hr.chance(1, 2)) { Op a2 = a; a2.id = 1; p.ops.push_back(a2); }
				Op h; h.task = 2; h.id = 0; h.kind = OP_HAMMER; h.a[0] = 0; h.a[1] = (big ? 65536 : 256) + (int64_t)hr.below(3) - 1; h.a[2] = hr.chance(1, 2); h.a[3] = 0; p.ops.push_back(h);
				p.strat = S_STALL; p.strat_arg = 3; p.knobs["stall_hold"] = 1; p.knobs["stall_task"] = 1; p.knobs["stall_from"] = (int64_t)hr.below(30);
				p.knobs["cap1"] = 8000000;
			  } }
		} else {
			p.ntasks = rng.chance(1, 2) ? 1 : 2 + (int)rng.below(2);
			int nm = 1 + (int)rng.below(2);
			p.knobs["nmutex"] = nm;
			for (int t = 1; t <= p.ntasks; t++) {
				int n = 2 + (int)rng.below(tier ? 60 : 24);
				for (int i = 0; i < n; i++) {
					Op o; o.task = t; o.id = i; o.kind = OP_G;
					if (p.cfg == CFG_QSGUARD) {
						// every operation the QS guard of this tree offers (at HEAD: construct locked, lock, unlock, destroy)
						static const int ops[] = {GO_CTOR_LOCK, GO_CTOR_LOCK, GO_LOCK, GO_UNLOCK, GO_UNLOCK, GO_DESTROY};
						static const int extra[] = {GO_CTOR_DEFER, GO_CTOR_ADOPT, GO_CTOR_DEFAULT, GO_MOVE_CTOR, GO_MOVE_ASSIGN, GO_SWAP, GO_COPY_CTOR, GO_COPY_ASSIGN, GO_IS_LOCKED, GO_PROTECTS};
						std::vector<int> av(ops, ops + 6);
						for (int x : extra) if (sut_guard_has(GT_QS, x)) { av.push_back(x); av.push_back(x); }
						o.a[0] = av[rng.below(av.size())]; o.a[1] = rng.below(2); o.a[2] = rng.below(2); o.a[3] = rng.below(nm);
						if ((o.a[0] == GO_CTOR_LOCK || o.a[0] == GO_LOCK) && rng.chance(1, 8)) o.a[3] += 16;
					} else {
						o.a[0] = rng.below(16); // (copy ops 14/15 are skipped unless the guard type is copyable)
						if (rng.chance(1, 10)) o.a[0] = GO_GUARD_ADOPT + rng.below(4); // factory helpers the unchanged tree does not have: skipped unless the tree offers them
						int ty = (int)rng.below(2); // 0: unique slots 0,1 ; 1: shared slots 2,3
						o.a[1] = ty * 2 + rng.below(2); o.a[2] = ty * 2 + rng.below(2); o.a[3] = rng.below(nm);
						if ((o.a[0] == GO_CTOR_LOCK || o.a[0] == GO_LOCK) && rng.chance(1, 6)) o.a[3] += 16; // this acquisition fails: the mutex's lock() throws
					}
					p.ops.push_back(o);
				}
			}
			if (rng.chance(1, 2)) p.knobs["odd"] = 1; // mutex objects at odd addresses
			pick_strategy(rng, p, false);
			if (p.ntasks > 1 && p.strat == S_PCT) { p.strat = S_RAND; p.strat_arg = 3; }
		}
	}

	bool layout_ok = false;
	void prepare(const Plan &) override { static int ok = -1; if (ok < 0) ok = sut_ticket_layout_ok(); layout_ok = ok == 1; }
	void setup(const Plan &p) override {
		memset(throw_armed_t, 0, sizeof throw_armed_t);
		cfg = p.cfg; cs_entries = 0; aged = p.knobs.count("age") != 0 && layout_ok;
		memset(in_cs, 0, sizeof in_cs); memset(holder, 0, sizeof holder); memset(ticketed, 0, sizeof ticketed); memset(acquiring, -1, sizeof acquiring); evq = 0; memset(queued_at, 0, sizeof queued_at); memset(loads_since_rmw, 0, sizeof loads_since_rmw); memset(invoked_at, 0, sizeof invoked_at); memset(did_rmw, 0, sizeof did_rmw);
		for (auto &q : tickets) q.clear();
		for (int t = 0; t < MAXT; t++) { priv[t] = (char *)obj_alloc(64, 64); for (int s = 0; s < 4; s++) { model[t][s] = Slot(); slots[t][s] = nullptr; } }
		if (cfg <= CFG_SIMPLE) {
			ltype = cfg == CFG_TICKET ? LT_TICKET : LT_SIMPLE;
			nlocks = (int)p.knob("nlocks", 1);
			for (int i = 0; i < nlocks; i++) {
				locks[i] = obj_alloc(sut_lock_size(ltype), 64);
				sut_lock_construct(ltype, locks[i], (int)((p.seed >> 3) & 1)); // storage is garbage-filled (obj_alloc)
				if (ltype == LT_TICKET && p.knobs.count("age") && layout_ok) {
					// equivalent to `age` uncontended lock()/unlock() pairs (both counters advance together); relies on
					// the lock being two 32-bit counters, which is checked through its size
					uint32_t a = (uint32_t)p.knob("age"); uint32_t both[2] = {a, a};
					memcpy(locks[i], both, 8); shadow_fresh_write(locks[i], 8); probe(P_aged);
				}
				words[i] = (char *)obj_alloc(32, 64);
				memset(words[i], 0, 32);
			}
		} else {
			nlocks = (int)p.knob("nmutex", 1);
			bool odd = p.knob("odd", 0) != 0; if (odd) probe(P_odd_mutex);
			for (int i = 0; i < nlocks; i++) { mtx[i] = new (obj_alloc(sizeof(SimMutex), 64)) SimMutex(); px[i] = (char *)obj_alloc(16, 16) + (odd ? 1 + 2 * i : 8 * i); }
			for (int t = 1; t <= p.ntasks; t++) for (int s = 0; s < 4; s++) slots[t][s] = obj_alloc(32, 16);
		}
	}

	// Ticket order, judged without knowing which access draws the ticket: a task that is visibly WAITING (it has made at
	// least two consecutive atomic loads of the lock object after its last read-modify-write, i.e. it spins) has drawn its
	// ticket. If another task only INVOKES lock() after that moment, its ticket is later, so it must not enter first.
	uint64_t evq = 0; uint64_t queued_at[MAXT]; int loads_since_rmw[MAXT]; uint64_t invoked_at[MAXT]; bool did_rmw[MAXT];
	bool in_lock_obj(const void *addr, int i) { return (const char *)addr >= (const char *)locks[i] && (const char *)addr < (const char *)locks[i] + sut_lock_size(ltype); }
	void on_rmw(int task, const void *addr, size_t n) override {
		if (cfg > CFG_SIMPLE || task == 0 || ltype != LT_TICKET) return;
		int i = acquiring[task];
		if (i >= 0 && in_lock_obj(addr, i)) { loads_since_rmw[task] = 0; queued_at[task] = 0; did_rmw[task] = true; }
	}
	void on_access(int task, const void *addr, size_t n, bool write, bool atomic) override {
		if (cfg > CFG_SIMPLE || task == 0 || ltype != LT_TICKET || !atomic) return;
		int i = acquiring[task];
		if (i < 0 || !in_lock_obj(addr, i)) return;
		if (write) { loads_since_rmw[task] = 0; queued_at[task] = 0; return; } // (the RMW hook re-confirms; a plain atomic store also resets)
		if (did_rmw[task] && ++loads_since_rmw[task] >= 2 && !queued_at[task]) queued_at[task] = ++evq; // (loads before any RMW of this acquisition are pre-checks, not waiting)
	}

	struct CsArg { LockEngine *e; int task, lk, n, check; bool release_stalled = false; };
	static void cs_body(void *p) {
		CsArg *a = (CsArg *)p; LockEngine *e = a->e; int lk = a->lk;
		if (++e->in_cs[lk] != 1) violation("mutual_exclusion", "task %d entered the critical section of lock %d while task %d is inside", a->task, lk, e->holder[lk]);
		if (e->ltype == LT_TICKET) {
			for (int t = 1; t < MAXT; t++) if (t != a->task && e->acquiring[t] == lk && e->queued_at[t] && e->queued_at[t] < e->invoked_at[a->task])
				violation("ticket_order", "task %d acquired ticket lock %d although task %d was already spinning for it (with its ticket drawn) before task %d even called lock()", a->task, lk, t, a->task);
		}
		e->acquiring[a->task] = -1; e->queued_at[a->task] = 0; e->loads_since_rmw[a->task] = 0;
		if (e->holder[lk] && e->holder[lk] != a->task) probe(P_handover);
		e->holder[lk] = a->task;
		e->cs_entries++; probe(P_cs);
		if (a->release_stalled) { probe(P_hammer_release_inside); stall_release(); for (int i = 0; i < 60; i++) { user_write(e->priv[a->task], 8); if (e->in_cs[lk] != 1) violation("mutual_exclusion", "a second task entered the critical section of lock %d while task %d holds it (after a long stall of the other task)", lk, a->task); } }
		logev(0x1001, (uint64_t)a->task, (uint64_t)lk);
		for (int i = 0; i < a->n; i++) {
			char *w = e->words[lk] + 8 * (i & 3);
			user_read(w, 8);
			uint64_t v; memcpy(&v, w, 8);
			if (e->in_cs[lk] != 1) violation("mutual_exclusion", "second task entered critical section of lock %d during task %d's section", lk, a->task);
			user_write(w, 8);
			v++; memcpy(w, &v, 8);
		}
		// is_locked() of the spinlocks is not part of C12's statement: disagreements are counted, never reported
		if (a->check && !e->aged) {
			probe(P_is_locked_checked);
			if (!sut_is_locked(e->ltype, e->locks[lk])) probe(P_is_locked_misreport); // not a violation: C12 does not state what the spinlocks' is_locked() returns
		}
		if (e->in_cs[lk] != 1) violation("mutual_exclusion", "second task inside critical section of lock %d at exit of task %d", lk, a->task);
		e->in_cs[lk]--;
		e->holder[lk] = -a->task; // released (negative: last holder)
	}

	void check_guards(int me, const char *what) {
		for (int m = 0; m < nlocks; m++) {
			int exp_x = 0, exp_s = 0;
			for (int s = 0; s < 4; s++) if (model[me][s].exists && model[me][s].owns && model[me][s].mutex == m) { if (cfg == CFG_GUARDS && s >= 2) exp_s++; else exp_x++; }
			int act_x = mtx[m]->owner == me ? 1 : 0, act_s = mtx[m]->shared_by[me];
			if (exp_x == act_x && exp_s == act_s) continue;
			if (exp_x + exp_s == act_x + act_s)
				violation("guard_kind_mismatch", "after %s: task %d should hold mutex %d %s but holds it %s", what, me, m, exp_x ? "exclusively" : "shared", act_x ? "exclusively" : "shared");
			violation("guard_balance", "after %s: task %d's guards own mutex %d %d time(s) exclusive / %d shared, but the mutex is held %d / %d (lock %u unlock %u lock_shared %u unlock_shared %u)",
				what, me, m, exp_x, exp_s, act_x, act_s, mtx[m]->n_lock, mtx[m]->n_unlock, mtx[m]->n_lock_shared, mtx[m]->n_unlock_shared);
		}
	}
	bool holds_ge(int me, int m) { // lock-order discipline of the harness: never acquire m while holding m' >= m
		for (int s = 0; s < 4; s++) if (model[me][s].exists && model[me][s].owns && model[me][s].mutex >= m) return true;
		return false;
	}

	void guard(int me, const Op &o) {
		int gop = (int)o.a[0], a = (int)(o.a[1] & 3), b = (int)(o.a[2] & 3), m = (int)((o.a[3] & 15) % nlocks);
		bool thr = (o.a[3] & 16) != 0;
		int gt = cfg == CFG_QSGUARD ? GT_QS : (a >= 2 ? GT_SHARED : GT_UNIQUE);
		if (gop < 0 || gop >= GO_N) { probe(P_guard_skipped); return; }
		if (cfg == CFG_QSGUARD) { a &= 1; b &= 1; }
		else if ((a >= 2) != (b >= 2)) b = a;
		if (gop == GO_GUARD_LOCK || gop == GO_GUARD_DEFER || gop == GO_GUARD_ADOPT) { if (cfg != CFG_GUARDS) { probe(P_guard_skipped); return; } if (a >= 2) a -= 2; b = a; gt = GT_UNIQUE; }
		if (gop == GO_SGUARD_LOCK || gop == GO_SGUARD_DEFER || gop == GO_SGUARD_ADOPT) { if (cfg != CFG_GUARDS) { probe(P_guard_skipped); return; } if (a < 2) a += 2; b = a; gt = GT_SHARED; }
		if (!sut_guard_has(gt, gop)) { probe(P_guard_skipped); return; } // the guard type of this tree does not offer the operation
		if (cfg == CFG_QSGUARD && gop != GO_CTOR_LOCK && gop != GO_LOCK && gop != GO_UNLOCK && gop != GO_DESTROY) probe(P_qs_extra_ops);
		Slot &A = model[me][a], &B = model[me][b];
		bool ok = true;
		switch (gop) {
		case GO_CTOR_LOCK: case GO_GUARD_LOCK: case GO_SGUARD_LOCK: ok = !A.exists && !holds_ge(me, m); break;
		case GO_CTOR_DEFER: case GO_CTOR_DEFAULT: case GO_GUARD_DEFER: case GO_SGUARD_DEFER: ok = !A.exists; break;
		case GO_CTOR_ADOPT: case GO_GUARD_ADOPT: case GO_SGUARD_ADOPT: ok = !A.exists && !holds_ge(me, m); break;
		case GO_LOCK: ok = A.exists && A.mutex >= 0 && !A.owns && !holds_ge(me, A.mutex); break;
		case GO_UNLOCK: ok = A.exists && A.owns; break;
		case GO_MOVE_CTOR: ok = !A.exists && B.exists && a != b; break;
		case GO_MOVE_ASSIGN: ok = A.exists && B.exists && a != b; break;
		case GO_SWAP: ok = A.exists && B.exists; break;
		case GO_COPY_CTOR: ok = !A.exists && B.exists && a != b; break;
		case GO_COPY_ASSIGN: ok = A.exists && !A.owns && B.exists && a != b; break;
		case GO_DESTROY: case GO_IS_LOCKED: case GO_PROTECTS: ok = A.exists; break;
		default: ok = false;
		}
		if (!ok) { probe(P_guard_skipped); return; }
		probe(P_guard_ops);
		logev(0x2000 + gop, (uint64_t)a, (uint64_t)b);
		int ret = 0;
		switch (gop) {
		case GO_CTOR_LOCK:
			if (thr) { // constructor throws: no guard object comes into existence, nothing may be held
				probe(P_throwing); throw_armed_t[me] = true;
				int rc = sut_guard_op(gt, gop, slots[me][a], nullptr, px[m]); throw_armed_t[me] = false;
				if (rc != -77) violation("guard_state", "locking constructor returned normally although the mutex's lock() threw");
				break;
			}
			if (mtx[m]->owner >= 0 && mtx[m]->owner != me) probe(P_blocked_on_guard);
			sut_guard_op(gt, gop, slots[me][a], nullptr, px[m]); A = {true, m, true}; break;
		case GO_GUARD_LOCK: case GO_SGUARD_LOCK: sut_guard_op(gt, gop, slots[me][a], nullptr, px[m]); A = {true, m, true}; break;
		case GO_GUARD_DEFER: case GO_SGUARD_DEFER:
		case GO_CTOR_DEFER: sut_guard_op(gt, gop, slots[me][a], nullptr, px[m]); A = {true, m, false}; break;
		case GO_CTOR_ADOPT: case GO_GUARD_ADOPT: case GO_SGUARD_ADOPT:
			probe(P_adopt);
			if (gt == GT_SHARED) mtx[m]->lock_shared(); else mtx[m]->lock();
			sut_guard_op(gt, gop, slots[me][a], nullptr, px[m]); A = {true, m, true}; break;
		case GO_CTOR_DEFAULT: sut_guard_op(gt, gop, slots[me][a], nullptr, nullptr); A = {true, -1, false}; break;
		case GO_LOCK:
			if (thr) { // lock() of the mutex throws: the guard must still say (and behave as if) it does not own the lock
				probe(P_throwing); throw_armed_t[me] = true;
				int rc = sut_guard_op(gt, gop, slots[me][a], nullptr, nullptr); throw_armed_t[me] = false;
				if (rc != -77) violation("guard_state", "guard.lock() returned normally although the mutex's lock() threw");
				if (sut_guard_has(gt, GO_IS_LOCKED) && sut_guard_op(gt, GO_IS_LOCKED, slots[me][a], nullptr, nullptr)) violation("guard_state", "guard.lock() failed with an exception but is_locked() is true");
				break;
			}
			sut_guard_op(gt, gop, slots[me][a], nullptr, nullptr); A.owns = true; break;
		case GO_UNLOCK: sut_guard_op(gt, gop, slots[me][a], nullptr, nullptr); A.owns = false; break;
		case GO_MOVE_CTOR: sut_guard_op(gt, gop, slots[me][a], slots[me][b], nullptr); A = B; B = {true, -1, false}; break;
		case GO_MOVE_ASSIGN:
			if (A.owns) probe(P_move_onto_owner);
			sut_guard_op(gt, gop, slots[me][a], slots[me][b], nullptr); A = B; B = {true, -1, false}; break;
		case GO_SWAP:
			if (A.owns && B.owns && a != b) probe(P_swap_both);
			sut_guard_op(gt, gop, slots[me][a], slots[me][b], nullptr); if (a != b) std::swap(A, B); break;
		case GO_DESTROY: sut_guard_op(gt, gop, slots[me][a], nullptr, nullptr); A = Slot(); break;
		case GO_COPY_CTOR: case GO_COPY_ASSIGN:
			// A copyable guard: whatever a copy means for the type, the two objects together must release what the source
			// owned exactly once. Copy, then destroy both at once, and let the balance check judge.
			probe(P_copy_ops);
			sut_guard_op(gt, gop, slots[me][a], slots[me][b], nullptr);
			sut_guard_op(gt, GO_DESTROY, slots[me][a], nullptr, nullptr);
			sut_guard_op(gt, GO_DESTROY, slots[me][b], nullptr, nullptr);
			A = Slot(); B = Slot(); break;
		case GO_IS_LOCKED:
			ret = sut_guard_op(gt, gop, slots[me][a], nullptr, nullptr);
			if ((ret != 0) != A.owns) violation("guard_state", "is_locked() = %d but the guard %s the lock", ret, A.owns ? "owns" : "does not own");
			break;
		case GO_PROTECTS:
			ret = sut_guard_op(gt, gop, slots[me][a], nullptr, px[m]);
			if ((ret != 0) != (A.owns && A.mutex == m)) violation("guard_state", "protects(mutex %d) = %d but guard owns=%d mutex=%d", m, ret, A.owns, A.mutex);
			break;
		}
		check_guards(me, go_names[gop]);
	}

	void exec(int me, const Op &o) override {
		switch (o.kind) {
		case OP_CS: {
			if (cfg > CFG_SIMPLE) return;
			int lk = (int)(o.a[0] % nlocks);
			CsArg a{this, me, lk, (int)o.a[1], (int)o.a[3]};
			if (holder[lk] > 0 && holder[lk] != me) probe(P_contended);
			acquiring[me] = lk; invoked_at[me] = ++evq; queued_at[me] = 0; loads_since_rmw[me] = 0; did_rmw[me] = false;
			if (o.a[2]) sut_guarded(ltype, locks[lk], cs_body, &a);
			else { sut_lock(ltype, locks[lk]); cs_body(&a); sut_unlock(ltype, locks[lk]); }
			break; }
		case OP_HAMMER: {
			if (cfg > CFG_SIMPLE) return;
			int lk = (int)(o.a[0] % nlocks); int64_t N = o.a[1];
			probe(P_hammer); if (N > 60000) probe(P_hammer_big);
			for (int64_t i = 0; i < N; i++) {
				CsArg a{this, me, lk, 0, 0};
				a.release_stalled = o.a[2] && i == N - 1;
				acquiring[me] = lk; invoked_at[me] = ++evq; queued_at[me] = 0; loads_since_rmw[me] = 0; did_rmw[me] = false;
				sut_lock(ltype, locks[lk]); cs_body(&a); sut_unlock(ltype, locks[lk]);
				progress();
			}
			stall_release();
			break; }
		case OP_PEEK:
			if (cfg > CFG_SIMPLE) return;
			(void)sut_is_locked(ltype, locks[o.a[0] % nlocks]);
			break;
		case OP_THINK:
			for (int i = 0; i < (int)o.a[0]; i++) { user_write(priv[me], 8); }
			break;
		case OP_G:
			if (cfg <= CFG_SIMPLE) return;
			guard(me, o);
			break;
		}
	}

	void end_of_plan(int me) override {
		if (cfg <= CFG_SIMPLE) return;
		for (int s = 0; s < 4; s++) if (model[me][s].exists) {
			int gt = cfg == CFG_QSGUARD ? GT_QS : (s >= 2 ? GT_SHARED : GT_UNIQUE);
			sut_guard_op(gt, GO_DESTROY, slots[me][s], nullptr, nullptr);
			model[me][s] = Slot();
			check_guards(me, "destroy at end of script");
		}
	}
	void closing(int me) override {}

	void finish() override {
		if (cfg <= CFG_SIMPLE) {
			for (int i = 0; i < nlocks; i++) {
				if (!aged && sut_is_locked(ltype, locks[i])) probe(P_is_locked_misreport);
				uint64_t sum = 0; for (int w = 0; w < 4; w++) { uint64_t v; user_read(words[i] + 8 * w, 8); memcpy(&v, words[i] + 8 * w, 8); sum += v; }
				(void)sum;
			}
		} else {
			for (int i = 0; i < nlocks; i++) {
				SimMutex *m = mtx[i];
				if (m->owner >= 0 || m->shared) violation("guard_balance", "mutex %d still held (owner %d, shared %d) after all guards were destroyed", i, m->owner, m->shared);
				if (m->n_lock != m->n_unlock || m->n_lock_shared != m->n_unlock_shared)
					violation("guard_balance", "mutex %d: lock %u / unlock %u / lock_shared %u / unlock_shared %u calls do not pair up", i, m->n_lock, m->n_unlock, m->n_lock_shared, m->n_unlock_shared);
			}
		}
	}

	std::vector<Op> simplify(const Op &o) override {
		std::vector<Op> v;
		if (o.kind == OP_CS) { if (o.a[1] > 1) { Op c = o; c.a[1] = 1; v.push_back(c); } if (o.a[2]) { Op c = o; c.a[2] = 0; v.push_back(c); } if (o.a[3]) { Op c = o; c.a[3] = 0; v.push_back(c); } }
		if (o.kind == OP_THINK && o.a[0] > 1) { Op c = o; c.a[0] = 1; v.push_back(c); }
		if (o.kind == OP_HAMMER) { if (o.a[1] > 300) { Op c = o; c.a[1] = 256 + (o.a[1] & 1); v.push_back(c); } if (o.a[2]) { Op c = o; c.a[2] = 0; v.push_back(c); } }
		return v;
	}
};

extern "C" void simh_px_lock(void *p) { GL->resolve(p, "lock")->lock(); }
extern "C" void simh_px_unlock(void *p) { GL->resolve(p, "unlock")->unlock(); }
extern "C" void simh_px_lock_shared(void *p) { GL->resolve(p, "lock_shared")->lock_shared(); }
extern "C" void simh_px_unlock_shared(void *p) { GL->resolve(p, "unlock_shared")->unlock_shared(); }
Engine *sim::make_engine() { return new LockEngine(); }
