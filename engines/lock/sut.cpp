// Instrumented translation unit (compiled with -fsanitize=thread, linked against simrt's
// own TSan-ABI runtime): the real frigg spinlocks and lock guards.
#include <new>
#include <utility>
#include <type_traits>
#include <frg/spinlock.hpp>
#include <frg/mutex.hpp>
#include <frg/qs.hpp>
#include "../../sim/simrt.hpp"
#include "sut.hpp"

using sim::SimMutex;

// lock()/lock_shared() of the mutex may fail by throwing (a legal path for a user-supplied mutex type): the guard must
// then not claim ownership. The harness arms the throw for the next acquisition only.
extern "C" int simh_lock_should_throw();
struct ThrowingMutex : SimMutex {
	void lock() { if (simh_lock_should_throw()) throw 1; SimMutex::lock(); }
	void lock_shared() { if (simh_lock_should_throw()) throw 1; SimMutex::lock_shared(); }
};

template <class G>
static int guard_op(int op, void *a, void *b, SimMutex *m0) {
	ThrowingMutex *m = static_cast<ThrowingMutex *>(m0);
	G *ga = static_cast<G *>(a), *gb = static_cast<G *>(b);
	switch (op) {
	case GO_CTOR_LOCK: new (a) G(*m); return 0;
	case GO_CTOR_DEFER: new (a) G(frg::dont_lock, *m); return 0;
	case GO_CTOR_ADOPT: new (a) G(frg::adopt_lock, *m); return 0;
	case GO_CTOR_DEFAULT: new (a) G(); return 0;
	case GO_LOCK: ga->lock(); return 0;
	case GO_UNLOCK: ga->unlock(); return 0;
	case GO_MOVE_CTOR: new (a) G(std::move(*gb)); return 0;
	case GO_MOVE_ASSIGN: *ga = std::move(*gb); return 0;
	case GO_SWAP: swap(*ga, *gb); return 0;
	case GO_DESTROY: ga->~G(); return 0;
	case GO_IS_LOCKED: return ga->is_locked();
	case GO_PROTECTS: return ga->protects(m);
	case GO_GUARD_LOCK: // the frg::guard() helpers return a unique_lock by value (move construction from a temporary)
		if constexpr (std::is_same_v<G, frg::unique_lock<ThrowingMutex>>) { new (a) G(frg::guard(m)); return 0; } else return -1;
	case GO_GUARD_DEFER:
		if constexpr (std::is_same_v<G, frg::unique_lock<ThrowingMutex>>) { new (a) G(frg::guard(frg::dont_lock, m)); return 0; } else return -1;
	}
	return -1;
}


extern "C" {

size_t sut_lock_size(int type) { return type == LT_TICKET ? sizeof(frg::ticket_spinlock) : sizeof(frg::simple_spinlock); }
void sut_lock_construct(int type, void *mem) {
	if (type == LT_TICKET) new (mem) frg::ticket_spinlock(); else new (mem) frg::simple_spinlock();
}
void sut_lock(int type, void *l) {
	if (type == LT_TICKET) static_cast<frg::ticket_spinlock *>(l)->lock(); else static_cast<frg::simple_spinlock *>(l)->lock();
}
void sut_unlock(int type, void *l) {
	if (type == LT_TICKET) static_cast<frg::ticket_spinlock *>(l)->unlock(); else static_cast<frg::simple_spinlock *>(l)->unlock();
}
int sut_is_locked(int type, void *l) {
	return type == LT_TICKET ? static_cast<frg::ticket_spinlock *>(l)->is_locked() : static_cast<frg::simple_spinlock *>(l)->is_locked();
}
void sut_guarded(int type, void *l, void (*body)(void *), void *arg) {
	if (type == LT_TICKET) { frg::unique_lock<frg::ticket_spinlock> g(*static_cast<frg::ticket_spinlock *>(l)); body(arg); }
	else { frg::unique_lock<frg::simple_spinlock> g(*static_cast<frg::simple_spinlock *>(l)); body(arg); }
}

size_t sut_guard_size(int gt) {
	switch (gt) { case GT_UNIQUE: return sizeof(frg::unique_lock<ThrowingMutex>); case GT_SHARED: return sizeof(frg::shared_lock<ThrowingMutex>); default: return sizeof(frg::lock_guard<ThrowingMutex>); }
}

static int sut_guard_op_inner(int gt, int op, void *a, void *b, SimMutex *m0) {
	ThrowingMutex *m = static_cast<ThrowingMutex *>(m0);
	if (gt == GT_UNIQUE) return guard_op<frg::unique_lock<ThrowingMutex>>(op, a, b, m);
	if (gt == GT_SHARED) return guard_op<frg::shared_lock<ThrowingMutex>>(op, a, b, m);
	// QS lock_guard: not movable, no tags
	auto g = static_cast<frg::lock_guard<ThrowingMutex> *>(a);
	switch (op) {
	case GO_CTOR_LOCK: new (a) frg::lock_guard<ThrowingMutex>(*m); return 0;
	case GO_LOCK: g->lock(); return 0;
	case GO_UNLOCK: g->unlock(); return 0;
	case GO_DESTROY: g->~lock_guard(); return 0;
	}
	return -1;
}

int sut_guard_op(int gt, int op, void *a, void *b, SimMutex *m) {
	try { return sut_guard_op_inner(gt, op, a, b, m); } catch (int) { return -77; } // the mutex's lock() threw
}

// behavioural layout probe for the "aged lock" knob: a fresh ticket lock after one uncontended lock()/unlock() pair must look
// like two 32-bit counters that both advanced to 1 — only then may a run start from counters just below the wrap-around
int sut_ticket_layout_ok() {
	if (sizeof(frg::ticket_spinlock) != 8) return 0;
	alignas(8) unsigned char buf[8]; auto l = new (buf) frg::ticket_spinlock();
	l->lock(); l->unlock();
	unsigned int w[2]; __builtin_memcpy(w, buf, 8);
	return w[0] == 1 && w[1] == 1;
}

void sut_mutex_construct(void *mem) { new (mem) ThrowingMutex(); }

} // extern "C"
