// Instrumented translation unit (compiled with -fsanitize=thread, linked against simrt's
// own TSan-ABI runtime): the real frigg spinlocks and lock guards.
#include <new>
#include <utility>
#include <type_traits>
#include <frg/spinlock.hpp>
#include <frg/mutex.hpp>
#include <frg/qs.hpp>
#include "../../sim/simrt.hpp"
#include "sut.hpp"

using sim::SimMutex;

// The mutex type under the guards is a 1-byte proxy with alignment 1 (the harness also places it at odd addresses: a guard
// must not assume anything about the mutex type's alignment). Its calls reach the harness with the proxy's address, which
// the harness resolves to a SimMutex — a guard that calls a release function on some other address is caught there.
// lock()/lock_shared() may fail by throwing (a legal path for a user-supplied mutex type): the guard must then not
// claim ownership. The harness arms the throw for the next acquisition only.
extern "C" int simh_lock_should_throw();
extern "C" void simh_px_lock(void *px);
extern "C" void simh_px_unlock(void *px);
extern "C" void simh_px_lock_shared(void *px);
extern "C" void simh_px_unlock_shared(void *px);
// (declared inside namespace frg only so that argument-dependent lookup on a pointer to it finds frg's free helper functions)
namespace frg { struct SimProxyMutex {
	unsigned char unused;
	void lock() { if (simh_lock_should_throw()) throw 1; simh_px_lock(this); }
	void unlock() { simh_px_unlock(this); }
	void lock_shared() { if (simh_lock_should_throw()) throw 1; simh_px_lock_shared(this); }
	void unlock_shared() { simh_px_unlock_shared(this); }
}; }
using ProxyMutex = frg::SimProxyMutex;
static_assert(sizeof(ProxyMutex) == 1 && alignof(ProxyMutex) == 1);
// the free factory helpers next to frg::guard(m) / guard(dont_lock, m): probed by unqualified (dependent) calls, so that a
// tree that completes the family — guard(adopt_lock, m), shared_guard(...) — gets the new members exercised as well
template <class MM> constexpr bool has_guard_adopt_v = requires(MM *x) { guard(frg::adopt_lock, x); };
template <class MM> constexpr bool has_sguard_v = requires(MM *x) { shared_guard(x); };
template <class MM> constexpr bool has_sguard_defer_v = requires(MM *x) { shared_guard(frg::dont_lock, x); };
template <class MM> constexpr bool has_sguard_adopt_v = requires(MM *x) { shared_guard(frg::adopt_lock, x); };
template <class Dep, class MM> auto call_guard_adopt(MM *x) { return guard(frg::adopt_lock, x); }
template <class Dep, class MM> auto call_sguard(MM *x) { return shared_guard(x); }
template <class Dep, class MM> auto call_sguard_defer(MM *x) { return shared_guard(frg::dont_lock, x); }
template <class Dep, class MM> auto call_sguard_adopt(MM *x) { return shared_guard(frg::adopt_lock, x); }

// Every operation is offered to every guard type and compiled only if the guard type of the tree under test has it
// (Query: report availability without executing). So a guard that gains an operation — e.g. an implicit copy constructor,
// to which a "move" construction binds — gets that operation exercised.
template <class G, bool Query>
static int guard_op(int op, void *a, void *b, ProxyMutex *m) {
	using M = ProxyMutex;
	G *ga = static_cast<G *>(a), *gb = static_cast<G *>(b);
#define AVAIL(cond, stmt) if constexpr (cond) { if (Query) return 1; stmt; return 0; } else return -1
	switch (op) {
	case GO_CTOR_LOCK: AVAIL((std::is_constructible_v<G, M &>), new (a) G(*m));
	case GO_CTOR_DEFER: AVAIL((std::is_constructible_v<G, frg::dont_lock_t, M &>), new (a) G(frg::dont_lock, *m));
	case GO_CTOR_ADOPT: AVAIL((std::is_constructible_v<G, frg::adopt_lock_t, M &>), new (a) G(frg::adopt_lock, *m));
	case GO_CTOR_DEFAULT: AVAIL((std::is_default_constructible_v<G>), new (a) G());
	case GO_LOCK: AVAIL((requires(G &g) { g.lock(); }), ga->lock());
	case GO_UNLOCK: AVAIL((requires(G &g) { g.unlock(); }), ga->unlock());
	case GO_MOVE_CTOR: AVAIL((std::is_move_constructible_v<G>), new (a) G(std::move(*gb)));
	case GO_MOVE_ASSIGN: AVAIL((std::is_move_assignable_v<G>), *ga = std::move(*gb));
	case GO_SWAP: AVAIL((std::is_swappable_v<G>), { using std::swap; swap(*ga, *gb); });
	case GO_COPY_CTOR: AVAIL((std::is_copy_constructible_v<G>), new (a) G(*const_cast<const G *>(gb)));
	case GO_COPY_ASSIGN: AVAIL((std::is_copy_assignable_v<G>), *ga = *const_cast<const G *>(gb));
	case GO_DESTROY: if (Query) return 1; ga->~G(); return 0;
	case GO_IS_LOCKED: if constexpr (requires(G &g) { g.is_locked(); }) { if (Query) return 1; return ga->is_locked() ? 1 : 0; } else return -1;
	case GO_PROTECTS: if constexpr (requires(G &g, M *x) { g.protects(x); }) { if (Query) return 1; return ga->protects(m) ? 1 : 0; } else return -1;
	case GO_GUARD_LOCK: // the frg::guard() helpers return a unique_lock by value (move construction from a temporary)
		AVAIL((std::is_same_v<G, frg::unique_lock<M>>), new (a) G(frg::guard(m)));
	case GO_GUARD_DEFER:
		AVAIL((std::is_same_v<G, frg::unique_lock<M>>), new (a) G(frg::guard(frg::dont_lock, m)));
	case GO_GUARD_ADOPT: AVAIL((std::is_same_v<G, frg::unique_lock<M>> && has_guard_adopt_v<M>), new (a) G(call_guard_adopt<G>(m)));
	case GO_SGUARD_LOCK: AVAIL((std::is_same_v<G, frg::shared_lock<M>> && has_sguard_v<M>), new (a) G(call_sguard<G>(m)));
	case GO_SGUARD_DEFER: AVAIL((std::is_same_v<G, frg::shared_lock<M>> && has_sguard_defer_v<M>), new (a) G(call_sguard_defer<G>(m)));
	case GO_SGUARD_ADOPT: AVAIL((std::is_same_v<G, frg::shared_lock<M>> && has_sguard_adopt_v<M>), new (a) G(call_sguard_adopt<G>(m)));
	}
#undef AVAIL
	return -1;
}

template <bool Query>
static int guard_dispatch(int gt, int op, void *a, void *b, void *m0) {
	ProxyMutex *m = static_cast<ProxyMutex *>(m0);
	if (gt == GT_UNIQUE) return guard_op<frg::unique_lock<ProxyMutex>, Query>(op, a, b, m);
	if (gt == GT_SHARED) return guard_op<frg::shared_lock<ProxyMutex>, Query>(op, a, b, m);
	return guard_op<frg::lock_guard<ProxyMutex>, Query>(op, a, b, m);
}

extern "C" {

size_t sut_lock_size(int type) { return type == LT_TICKET ? sizeof(frg::ticket_spinlock) : sizeof(frg::simple_spinlock); }
void sut_lock_construct(int type, void *mem, int default_init) {
	// both initialisation forms a user may write: `T x;` / a class member (default-initialisation: only the constructor
	// stands between the lock and whatever the storage held) and `T x{}` / `T()` (value-initialisation)
	if (default_init) { if (type == LT_TICKET) new (mem) frg::ticket_spinlock; else new (mem) frg::simple_spinlock; }
	else { if (type == LT_TICKET) new (mem) frg::ticket_spinlock(); else new (mem) frg::simple_spinlock(); }
}
void sut_lock(int type, void *l) {
	if (type == LT_TICKET) static_cast<frg::ticket_spinlock *>(l)->lock(); else static_cast<frg::simple_spinlock *>(l)->lock();
}
void sut_unlock(int type, void *l) {
	if (type == LT_TICKET) static_cast<frg::ticket_spinlock *>(l)->unlock(); else static_cast<frg::simple_spinlock *>(l)->unlock();
}
int sut_is_locked(int type, void *l) {
	return type == LT_TICKET ? static_cast<frg::ticket_spinlock *>(l)->is_locked() : static_cast<frg::simple_spinlock *>(l)->is_locked();
}
void sut_guarded(int type, void *l, void (*body)(void *), void *arg) {
	if (type == LT_TICKET) { frg::unique_lock<frg::ticket_spinlock> g(*static_cast<frg::ticket_spinlock *>(l)); body(arg); }
	else { frg::unique_lock<frg::simple_spinlock> g(*static_cast<frg::simple_spinlock *>(l)); body(arg); }
}

size_t sut_guard_size(int gt) {
	switch (gt) { case GT_UNIQUE: return sizeof(frg::unique_lock<ProxyMutex>); case GT_SHARED: return sizeof(frg::shared_lock<ProxyMutex>); default: return sizeof(frg::lock_guard<ProxyMutex>); }
}

int sut_guard_op(int gt, int op, void *a, void *b, void *m) {
	try { return guard_dispatch<false>(gt, op, a, b, m); } catch (int) { return -77; } // the mutex's lock() threw
}
int sut_guard_has(int gt, int op) { return guard_dispatch<true>(gt, op, nullptr, nullptr, nullptr) == 1; }

// behavioural layout probe for the "aged lock" knob: a fresh ticket lock after one uncontended lock()/unlock() pair must look
// like two 32-bit counters that both advanced to 1 — only then may a run start from counters just below the wrap-around
int sut_ticket_layout_ok() {
	if (sizeof(frg::ticket_spinlock) != 8) return 0;
	alignas(8) unsigned char buf[8]; auto l = new (buf) frg::ticket_spinlock();
	l->lock(); l->unlock();
	unsigned int w[2]; __builtin_memcpy(w, buf, 8);
	return w[0] == 1 && w[1] == 1;
}

} // extern "C"
