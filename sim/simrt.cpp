// simrt runtime: scheduler, TSan-ABI entry points, memory model, race detector, SimMutex.
// This translation unit is NOT instrumented.
#include "simrt.hpp"
#include <signal.h>
#include <setjmp.h>
#include <stdarg.h>
#include <stdio.h>
#include <stdlib.h>
#include <sys/mman.h>
#include <sys/time.h>
#include <ucontext.h>
#include <unistd.h>
#include <algorithm>
#include <unordered_map>

namespace sim {

const char *fault_kind_names[FK_NKINDS] = {"stale_read", "cas_spurious", "map_fail", "placement", "stall", "yield"};

// ------------------------------------------------------------------ PRNG
static inline uint64_t rotl(uint64_t x, int k) { return (x << k) | (x >> (64 - k)); }
uint64_t splitmix(uint64_t base, uint64_t i) {
	uint64_t z = base + 0x9e3779b97f4a7c15ull * (i + 1);
	z = (z ^ (z >> 30)) * 0xbf58476d1ce4e5b9ull;
	z = (z ^ (z >> 27)) * 0x94d049bb133111ebull;
	return z ^ (z >> 31);
}
void Rng::seed(uint64_t x) { for (int i = 0; i < 4; i++) s[i] = splitmix(x, i); }
uint64_t Rng::next() {
	uint64_t r = rotl(s[1] * 5, 7) * 9, t = s[1] << 17;
	s[2] ^= s[0]; s[3] ^= s[1]; s[1] ^= s[2]; s[0] ^= s[3]; s[2] ^= t; s[3] = rotl(s[3], 45);
	return r;
}

// ------------------------------------------------------------------ memory
char *arena;
size_t arena_size = (size_t)192 << 20;
size_t aux_bytes = 0;
static const size_t OBJ_ZONE = (size_t)8 << 20; // first 8 MiB: objects under test, nodes

struct Cell { uint32_t w, r; }; // per byte; epoch = clk<<5 | atomic<<4 | task ; r: bit31 => vc pool index
static Cell *shadow;
static uint8_t *page_touched;
static std::vector<uint32_t> touched_pages;
static std::vector<VC> vcpool;
static const uint32_t ATOMIC_BIT = 16, SHARED_BIT = 0x80000000u;

static inline void touch_page(uint64_t o) {
	uint32_t pg = (uint32_t)(o >> 12);
	if (!page_touched[pg]) { page_touched[pg] = 1; touched_pages.push_back(pg); }
}

static void init_memory() {
	if (arena) return;
	// Preferred placement: a fixed address such that the simulated policy's memory (which starts 16 MiB into the arena)
	// begins 8 MiB below the 4 GiB line and crosses it — code that truncates an address to 32 bits then misbehaves.
	// The same address in every process keeps runs comparable; if it is taken, fall back to any 1 GiB-aligned address.
#ifndef MAP_FIXED_NOREPLACE
#define MAP_FIXED_NOREPLACE 0x100000
#endif
	size_t G = (size_t)1 << 30;
	void *want = (void *)(uintptr_t)(0x100000000ull - ((uint64_t)24 << 20));
	char *fixed = (char *)mmap(want, arena_size, PROT_READ | PROT_WRITE, MAP_PRIVATE | MAP_ANONYMOUS | MAP_NORESERVE | MAP_FIXED_NOREPLACE, -1, 0);
	if (fixed == (char *)want) arena = fixed;
	else {
		if (fixed != (char *)MAP_FAILED) munmap(fixed, arena_size);
		char *raw = (char *)mmap(nullptr, arena_size + G, PROT_READ | PROT_WRITE, MAP_PRIVATE | MAP_ANONYMOUS | MAP_NORESERVE, -1, 0);
		if (raw == MAP_FAILED) { perror("mmap arena"); exit(3); }
		arena = (char *)(((uintptr_t)raw + G - 1) & ~(G - 1));
	}
	shadow = (Cell *)mmap(nullptr, arena_size * sizeof(Cell), PROT_READ | PROT_WRITE, MAP_PRIVATE | MAP_ANONYMOUS | MAP_NORESERVE, -1, 0);
	if (shadow == MAP_FAILED) { perror("mmap shadow"); exit(3); }
	page_touched = (uint8_t *)calloc(arena_size >> 12, 1);
}

// ------------------------------------------------------------------ run state
enum TState { T_NONE = 0, T_RUN, T_BLOCKED, T_PARKED, T_ATBAR, T_DONE };
enum HookKind { K_PLAIN = 0, K_ATOMIC, K_SYNC, K_YIELD };

struct StoreRec {
	uint64_t val, step;
	uint32_t clk; uint8_t task; bool has_rel; bool is_sc;
	VC rel;
};
struct Loc {
	std::vector<StoreRec> hist; // last few stores, oldest first
	uint64_t first = 0;         // global index of hist[0]
	uint64_t floor[MAXT] = {0};
	int size = 0;
};

struct Task {
	ucontext_t ctx;
	char *stack = nullptr;
	int st = T_NONE;
	VC clk;
	int opid = -1, opkind = -1;
	uint32_t k = 0;        // decision ordinal inside current op
	uint32_t ak = 0;       // atomic-load ordinal inside current op
	int held = 0;          // pool locks held
	SimMutex *blocked_on = nullptr;
	// spin detection
	int spin_n = 0, nwatch = 0, spin_limit = 16;
	uint64_t parked_at = 0;
	uint64_t watch_off[4]; uint64_t watch_val[4];
	bool last_cas_spurious = false;
	// fences
	VC fence_rel; bool has_fence_rel = false;
	VC pending_acq;
	int prio = 0;
};

static const size_t STACK_SZ = 512 << 10;

struct Run {
	Engine *eng = nullptr;
	const Plan *plan = nullptr;
	RunResult res;
	Task tasks[MAXT];
	int cur = 0, ntasks = 0;
	ucontext_t main_ctx;
	bool active = false, fair = false;
	uint64_t steps = 0, cap1 = 0, cap2 = 0;
	Rng rng, frng;
	uint64_t hash = 0, shash = 0;
	std::unordered_map<uint64_t, int> sched_map;
	std::unordered_map<uint64_t, int64_t> fault_map;
	std::vector<uint64_t> change_pts; size_t next_cp = 0; int low_prio = 0;
	int stall_task = 0; uint64_t stall_from = 0, stall_to = 0; bool stall_counted = false, stall_hold = false;
	std::map<uint64_t, Loc> locs;
	VC sc_clock;
	size_t obj_top = 0;
	std::vector<SimMutex *> mutexes;
	int nbar = 0; bool bar_released = false;
	int rr_last = 0;
	std::vector<std::vector<Op>> task_ops;
};
static Run *R;
static sigjmp_buf crash_jb;
static bool crash_jb_armed = false;
static sigjmp_buf prep_jb;
static bool prep_armed = false;
static Engine *prep_engine = nullptr;

struct ViolationEx {};
struct StopEx {};

static std::vector<std::string> probe_names;
static std::vector<uint64_t> probe_counts;
int probe_id(const char *name) {
	for (size_t i = 0; i < probe_names.size(); i++) if (probe_names[i] == name) return (int)i;
	probe_names.push_back(name); probe_counts.push_back(0);
	return (int)probe_names.size() - 1;
}
void probe(int id, uint64_t n) { probe_counts[id] += n; }
const std::vector<std::string> &all_probe_names() { return probe_names; }
std::vector<uint64_t> &all_probe_counts() { return probe_counts; }

int cur_task() { return R ? R->cur : 0; }
int cur_opid() { return R->tasks[R->cur].opid; }
int cur_opkind() { return R->tasks[R->cur].opkind; }
uint64_t now() { return R->steps; }
const Plan &plan() { return *R->plan; }
bool fair_phase() { return R->fair; }
Rng &fill_rng() { return R->frng; }
const VC &my_clock() { return R->tasks[R->cur].clk; }
const VC &task_clock(int t) { return R->tasks[t].clk; }
int locks_held(int task) { return R->tasks[task].held; }
void note_lock(int d) { if (R && R->active) R->tasks[R->cur].held += d; }
void count_fault(int kind) { R->res.fired[kind]++; }

// values mixed into the log hash must not depend on ASLR: pointers into the arena are logged as offsets
static inline uint64_t norm(uint64_t v) { return (v - (uint64_t)(uintptr_t)arena) < arena_size ? (v - (uint64_t)(uintptr_t)arena) | (1ull << 62) : v; }
static inline uint64_t mix(uint64_t h, uint64_t x) {
	h ^= x + 0x9e3779b97f4a7c15ull + (h << 6) + (h >> 2);
	return h * 0xff51afd7ed558ccdull;
}
void logev(uint64_t a, uint64_t b, uint64_t c) {
	R->hash = mix(mix(mix(R->hash, a), b), c);
}

uint64_t draw_fault(uint64_t n) {
	if (R->plan->replay || R->fair || n == 0) return 0;
	return R->rng.below(n);
}

static void leave_to_main() {
	Run &r = *R;
	int prev = r.cur;
	r.cur = 0;
	if (prev == 0) return;
	swapcontext(&r.tasks[prev].ctx, &r.main_ctx);
	// never resumed
	abort();
}

void violation(const char *cls, const char *fmt, ...) {
	Run &r = *R;
	char buf[1024];
	va_list ap; va_start(ap, fmt); vsnprintf(buf, sizeof buf, fmt, ap); va_end(ap);
	if (!r.res.v.set) {
		r.res.v.set = true; r.res.v.cls = cls; r.res.v.msg = buf; r.res.v.step = r.steps;
		r.res.v.task = r.cur; r.res.v.opid = r.tasks[r.cur].opid; r.res.v.opkind = r.tasks[r.cur].opkind;
	}
	if (r.cur == 0) throw ViolationEx{};
	leave_to_main();
	abort();
}

void stop_run(const char *reason) {
	Run &r = *R;
	r.res.stopped = true; r.res.stop_reason = reason;
	if (r.cur == 0) throw StopEx{};
	leave_to_main();
	abort();
}

// ------------------------------------------------------------------ scheduler
static inline bool enabled(int t) { return R->tasks[t].st == T_RUN; }
static int lowest_enabled() { for (int t = 1; t <= R->ntasks; t++) if (enabled(t)) return t; return 0; }
static int next_enabled_after(int t) {
	for (int i = 1; i <= R->ntasks; i++) { int u = (t - 1 + i) % R->ntasks + 1; if (enabled(u)) return u; }
	return 0;
}
static int count_enabled() { int n = 0; for (int t = 1; t <= R->ntasks; t++) n += enabled(t); return n; }
static int nth_enabled(int n) { for (int t = 1; t <= R->ntasks; t++) if (enabled(t) && n-- == 0) return t; return 0; }
static int best_prio() {
	int b = 0;
	for (int t = 1; t <= R->ntasks; t++) if (enabled(t) && (!b || R->tasks[t].prio > R->tasks[b].prio)) b = t;
	return b;
}
static inline uint64_t skey(int task, int opid, uint32_t k) { return ((uint64_t)(uint32_t)(opid + 16) << 36) ^ ((uint64_t)k << 4) ^ (uint64_t)task; }
static inline uint64_t fkey(int kind, int task, int opid, uint32_t k) { return skey(task, opid, k) ^ ((uint64_t)kind << 60); }

static void switch_to(int next) {
	Run &r = *R;
	int prev = r.cur;
	if (next == prev) return;
	r.res.switches++;
	r.cur = next;
	swapcontext(&r.tasks[prev].ctx, &r.tasks[next].ctx);
}

static void all_blocked(); // deadlock or completion
static void spin_reset(Task &t) { t.spin_n = 0; t.nwatch = 0; }

// one scheduling decision; forced = current task cannot continue
static int decide(bool forced, int kind) {
	Run &r = *R;
	Task &me = r.tasks[r.cur];
	uint32_t k = me.k++;
	int dflt = forced ? lowest_enabled() : r.cur;
	if (dflt == 0) return 0;
	int next = dflt;
	if (r.fair) {
		if (forced || kind == K_YIELD) next = next_enabled_after(r.cur);
		else if ((r.steps & 7) == 0) next = next_enabled_after(r.cur);
		return next ? next : dflt;
	}
	if (r.plan->replay) {
		auto it = r.sched_map.find(skey(r.cur, me.opid, k));
		if (it != r.sched_map.end() && it->second >= 1 && it->second <= r.ntasks && enabled(it->second)) next = it->second;
	} else {
		const Plan &p = *r.plan;
		switch (p.strat) {
		case S_SEQ: break;
		case S_SYNC:
			if (!forced && kind == K_PLAIN) break;
			// fallthrough
		case S_RAND:
		case S_STALL: {
			bool sw = forced || kind == K_YIELD || r.rng.below((uint64_t)p.strat_arg) == 0;
			// long stall (knob stall_hold): the victim is taken off the CPU at stall_from and stays off until the engine calls
			// stall_release() — or nothing else can run —, however many operations the others do meanwhile
			if (!sw && r.stall_hold && r.cur == r.stall_task && r.steps >= r.stall_from && r.steps < r.stall_to && count_enabled() > 1) sw = true;
			if (sw) {
				int n = count_enabled();
				next = nth_enabled((int)r.rng.below(n));
				if (p.strat == S_STALL && next == r.stall_task && r.steps >= r.stall_from && r.steps < r.stall_to && n > 1) {
					// stalled node: not scheduled while anything else can run
					int alt = nth_enabled((int)r.rng.below(n));
					if (alt == r.stall_task) alt = next_enabled_after(r.stall_task);
					next = alt;
					if (!r.stall_counted) { r.stall_counted = true; r.res.fired[FK_STALL]++; }
				}
			}
			break; }
		case S_PCT: {
			while (r.next_cp < r.change_pts.size() && r.steps >= r.change_pts[r.next_cp]) {
				me.prio = --r.low_prio; r.next_cp++;
			}
			if (kind == K_YIELD) me.prio = --r.low_prio;
			next = best_prio();
			break; }
		}
		if (!next) next = dflt;
	}
	if (next != dflt) {
		r.res.sched.push_back({r.cur, me.opid, k, next});
		if (!forced) r.res.preemptions++;
	}
	return next;
}

static void forced_switch() {
	Run &r = *R;
	int next = decide(true, K_SYNC);
	if (!next) { all_blocked(); return; }
	switch_to(next);
}

static void all_blocked() {
	Run &r = *R;
	bool alldone = true;
	for (int t = 1; t <= r.ntasks; t++) if (r.tasks[t].st != T_DONE) alldone = false;
	if (alldone) { leave_to_main(); return; }
	// tasks that finished their plan wait for the closing phase; if everybody else is blocked or
	// spinning, start the (fair) closing phase now — their closing work may be what the others wait for
	if (!r.bar_released) {
		bool any = false;
		for (int t = 1; t <= r.ntasks; t++) if (r.tasks[t].st == T_ATBAR) { r.tasks[t].st = T_RUN; any = true; }
		if (any) { r.bar_released = true; r.fair = true; int n = lowest_enabled(); switch_to(n); return; }
	}
	// A task parked by the spin heuristic may merely be in a long bounded loop of identical loads
	// (e.g. scanning a bitmask): before declaring a deadlock, let such tasks continue with a 16x
	// larger threshold. A real spin escalates to 2^16 unchanged loads and is then reported.
	{
		bool woke = false;
		for (int t = 1; t <= r.ntasks; t++) {
			Task &x = r.tasks[t];
			if (x.st == T_PARKED && x.spin_limit < (1 << 16)) { x.spin_limit *= 16; x.st = T_RUN; spin_reset(x); woke = true; }
		}
		if (woke) { int n = lowest_enabled(); switch_to(n); return; }
	}
	// describe
	char buf[512]; int n = 0;
	for (int t = 1; t <= r.ntasks && n < 400; t++) {
		Task &x = r.tasks[t];
		const char *s = x.st == T_BLOCKED ? "blocked-on-mutex" : x.st == T_PARKED ? "spinning" : x.st == T_ATBAR ? "finished-plan" : x.st == T_DONE ? "done" : "?";
		n += snprintf(buf + n, sizeof buf - n, "t%d:%s(op %d) ", t, s, x.opid);
	}
	violation("deadlock", "no task can make progress: %s", buf);
}

static inline void sched_point(int kind) {
	Run &r = *R;
	r.steps++;
	if (r.steps > r.cap2) violation("no_progress", "step cap %llu exceeded (%s)", (unsigned long long)r.cap2, r.cur == 0 ? "setup/teardown context" : "fair phase");
	if (r.cur == 0) return;
	if ((r.steps & 1023) == 0) {
		// Parking is a heuristic. A task parked by mistake (a bounded scan that re-reads one unchanged atomic many times)
		// while the others keep running without ever storing to what it watches must not stay parked for good: after
		// 2000 steps it is released with a 4x larger threshold. A real spinner is simply parked again.
		for (int t = 1; t <= r.ntasks; t++) { Task &x = r.tasks[t]; if (x.st == T_PARKED && r.steps - x.parked_at > 2000 && x.spin_limit < (1 << 16)) { x.st = T_RUN; x.spin_limit *= 4; x.spin_n = 0; x.nwatch = 0; } }
	}
	if (!r.fair && r.steps > r.cap1) { r.fair = true; r.res.capped = true; }
	int next = decide(false, kind);
	if (next != r.cur) switch_to(next);
}

void sync_hook() { if (R && R->active) sched_point(K_SYNC); }
void stall_release() { if (R && R->active && R->stall_hold) R->stall_to = R->steps; }
void yield() {
	if (!R || !R->active || R->cur == 0) return;
	R->res.fired[FK_YIELD]++;
	sched_point(K_YIELD);
}

void progress() { if (R && R->active) spin_reset(R->tasks[R->cur]); }

// ------------------------------------------------------------------ race detector
static inline bool hb_epoch(uint32_t e, const Task &t) { return t.clk.c[e & 15] >= (e >> 5); }
static inline uint32_t my_epoch(int task, const Task &t, bool atomic) { return (t.clk.c[task] << 5) | (atomic ? ATOMIC_BIT : 0) | (uint32_t)task; }

static const char *region_name(uint64_t o) { return o < OBJ_ZONE ? "object-zone" : "policy-arena"; }

[[noreturn]] static void report_race(const char *what, const void *addr, uint32_t other, bool write, bool atomic) {
	Run &r = *R;
	violation("data_race", "%s: task %d %s%s of %s+0x%llx conflicts with unordered %s by task %d (epoch clk %u, my view of it %u)",
		what, r.cur, atomic ? "atomic " : "", write ? "write" : "read", region_name(off(addr)), (unsigned long long)off(addr),
		(other & ATOMIC_BIT) ? "atomic access" : "plain access", (int)(other & 15), other >> 5, r.tasks[r.cur].clk.c[other & 15]);
}

static void drop_locs(uint64_t o, size_t n) {
	Run &r = *R;
	if (r.locs.empty()) return;
	auto it = r.locs.lower_bound(o >= 7 ? o - 7 : 0);
	while (it != r.locs.end() && it->first < o + n) {
		if (it->first + it->second.size > o) it = r.locs.erase(it); else ++it;
	}
}

static uint64_t g_watch = ~0ull, g_trace_from = ~0ull; static bool g_watch_init = false;
static void race_access(const void *addr, size_t n, bool write, bool atomic) {
	Run &r = *R;
	if (!g_watch_init) { g_watch_init = true; if (const char *w = getenv("SIM_WATCH")) g_watch = strtoull(w, nullptr, 0); if (const char *f = getenv("SIM_TRACE_FROM")) g_trace_from = strtoull(f, nullptr, 0); }
	if (r.steps >= g_trace_from && r.steps < g_trace_from + 80)
		fprintf(stderr, "trace: step %llu task %d op %d(kind %d) %s%s +0x%llx n=%zu\n", (unsigned long long)r.steps, r.cur, r.tasks[r.cur].opid, r.tasks[r.cur].opkind, atomic ? "atomic " : "", write ? "WRITE" : "read", (unsigned long long)off(addr), n);
	if (g_watch != ~0ull && off(addr) <= g_watch && g_watch < off(addr) + n)
		fprintf(stderr, "watch: step %llu task %d op %d(kind %d) %s%s +0x%llx n=%zu clk=%u\n", (unsigned long long)r.steps, r.cur, r.tasks[r.cur].opid, r.tasks[r.cur].opkind, atomic ? "atomic " : "", write ? "WRITE" : "read", (unsigned long long)off(addr), n, r.tasks[r.cur].clk.c[r.cur]);
	int me = r.cur;
	Task &t = r.tasks[me];
	uint64_t o = off(addr);
	touch_page(o); if (((o + n - 1) >> 12) != (o >> 12)) for (uint64_t p = (o >> 12) + 1; p <= ((o + n - 1) >> 12); p++) touch_page(p << 12);
	uint32_t ep = my_epoch(me, t, atomic);
	bool had_atomic = false;
	for (size_t i = 0; i < n; i++) {
		Cell &c = shadow[o + i];
		if (c.w) {
			if ((c.w & 15) != (uint32_t)me && !(atomic && (c.w & ATOMIC_BIT)) && !hb_epoch(c.w, t))
				report_race(write ? "write-write" : "write-read", (const char *)addr + i, c.w, write, atomic);
			if (c.w & ATOMIC_BIT) had_atomic = true;
		}
		if (write) {
			if (c.r) {
				if (c.r & SHARED_BIT) {
					VC &v = vcpool[c.r & ~SHARED_BIT];
					for (int u = 1; u < MAXT; u++) if (u != me && v.c[u] > t.clk.c[u])
						report_race("read-write", (const char *)addr + i, (v.c[u] << 5) | (uint32_t)u, write, atomic);
				} else if ((c.r & 15) != (uint32_t)me && !hb_epoch(c.r, t))
					report_race("read-write", (const char *)addr + i, c.r, write, atomic);
			}
			c.w = ep; c.r = 0;
		} else if (!atomic) {
			if (!c.r || (!(c.r & SHARED_BIT) && ((c.r & 15) == (uint32_t)me || hb_epoch(c.r, t)))) c.r = ep;
			else if (c.r & SHARED_BIT) vcpool[c.r & ~SHARED_BIT].c[me] = t.clk.c[me];
			else {
				VC v; v.clear(); v.c[c.r & 15] = c.r >> 5; v.c[me] = t.clk.c[me];
				vcpool.push_back(v); c.r = SHARED_BIT | (uint32_t)(vcpool.size() - 1);
			}
		}
	}
	if (write && !atomic) {
		if (had_atomic) drop_locs(o, n);
		if (t.st == T_RUN) spin_reset(t);
	}
}

void shadow_reset(const void *p, size_t n) {
	// Untouched pages are already clean (every run ends by clearing the pages it touched): only pages that were
	// accessed earlier in this run need their history erased. Keeps a 256 KiB map() from costing a 2 MiB memset.
	uint64_t o = off(p), e = o + n;
	for (uint64_t pg = o >> 12; pg <= (e - 1) >> 12; pg++) {
		if (!page_touched[pg]) continue;
		uint64_t a = std::max<uint64_t>(o, pg << 12), b = std::min<uint64_t>(e, (pg + 1) << 12);
		memset(shadow + a, 0, (b - a) * sizeof(Cell));
	}
	drop_locs(o, n);
}
void shadow_fresh_write(const void *p, size_t n) {
	Run &r = *R;
	uint64_t o = off(p);
	for (uint64_t pg = o >> 12; pg <= (o + n - 1) >> 12; pg++) touch_page(pg << 12);
	uint32_t ep = my_epoch(r.cur, r.tasks[r.cur], false);
	for (size_t i = 0; i < n; i++) { shadow[o + i].w = ep; shadow[o + i].r = 0; }
	drop_locs(o, n);
}

void *obj_alloc(size_t n, size_t align) {
	Run &r = *R;
	size_t o = (r.obj_top + align - 1) & ~(align - 1);
	if (o + n > OBJ_ZONE) violation("sim_internal", "object zone exhausted");
	r.obj_top = o + n;
	char *p = arena + o;
	for (size_t i = 0; i < n; i += 8) { uint64_t g = r.frng.next(); memcpy(p + i, &g, n - i < 8 ? n - i : 8); }
	shadow_fresh_write(p, n);
	return p;
}

// ------------------------------------------------------------------ plain hooks
static inline void on_plain(const void *addr, size_t n, bool write) {
	Run *r = R;
	if (!r || !r->active) return;
	if (!in_arena(addr)) {
		if (in_aux(addr)) { r->eng->on_access(r->cur, addr, n, write, false); r->hash = mix(r->hash, (off(addr) << 8) ^ (n << 2) ^ (write ? 3 : 1) ^ ((uint64_t)r->cur << 56)); }
		return;
	}
	sched_point(K_PLAIN);
	r->eng->on_access(r->cur, addr, n, write, false);
	race_access(addr, n, write, false);
	r->hash = mix(r->hash, (off(addr) << 8) ^ (n << 2) ^ (write ? 2 : 0) ^ ((uint64_t)r->cur << 56));
}

void user_read(const void *p, size_t n) {
	Run *r = R;
	if (!r || !r->active || !in_arena(p)) return;
	sched_point(K_PLAIN);
	race_access(p, n, false, false);
	r->hash = mix(r->hash, (off(p) << 8) ^ 0x55 ^ ((uint64_t)r->cur << 56));
}
void user_write(const void *p, size_t n) {
	Run *r = R;
	if (!r || !r->active || !in_arena(p)) return;
	sched_point(K_PLAIN);
	race_access(p, n, true, false);
	r->hash = mix(r->hash, (off(p) << 8) ^ 0x56 ^ ((uint64_t)r->cur << 56));
}

void hb_release(VC &into) {
	Task &t = R->tasks[R->cur];
	into.join(t.clk);
	t.clk.c[R->cur]++;
}
void hb_acquire(const VC &from) { R->tasks[R->cur].clk.join(from); }

// ------------------------------------------------------------------ atomics
enum AKind { A_LOAD, A_STORE, A_XCHG, A_ADD, A_SUB, A_AND, A_OR, A_XOR, A_NAND, A_CAS_S, A_CAS_W };
static inline bool is_acq(int mo) { return mo == 1 || mo == 2 || mo == 4 || mo == 5; }
static inline bool is_rel(int mo) { return mo == 3 || mo == 4 || mo == 5; }

static uint64_t mem_get(const void *p, int size) {
	switch (size) { case 1: return *(const uint8_t *)p; case 2: return *(const uint16_t *)p; case 4: return *(const uint32_t *)p; default: return *(const uint64_t *)p; }
}
static void mem_put(void *p, int size, uint64_t v) {
	switch (size) { case 1: *(uint8_t *)p = (uint8_t)v; break; case 2: *(uint16_t *)p = (uint16_t)v; break; case 4: *(uint32_t *)p = (uint32_t)v; break; default: *(uint64_t *)p = v; }
}
static inline uint64_t trunc_to(uint64_t v, int size) { return size == 8 ? v : v & ((1ull << (size * 8)) - 1); }

static Loc &get_loc(void *addr, int size) {
	Run &r = *R;
	uint64_t o = off(addr);
	auto it = r.locs.find(o);
	if (it != r.locs.end() && it->second.size == size) return it->second;
	if (it != r.locs.end()) r.locs.erase(it);
	Loc &L = r.locs[o];
	L.size = size;
	StoreRec s{}; s.val = mem_get(addr, size); s.step = 0; s.clk = 0; s.task = 0; s.has_rel = false; s.is_sc = true;
	L.hist.push_back(s);
	return L;
}

static void wake_watchers(uint64_t o, Loc &L) {
	Run &r = *R;
	for (int t = 1; t <= r.ntasks; t++) {
		Task &x = r.tasks[t];
		if (x.st != T_PARKED) continue;
		for (int i = 0; i < x.nwatch; i++) if (x.watch_off[i] == o) {
			x.st = T_RUN; spin_reset(x);
			L.floor[t] = L.first + L.hist.size() - 1; // eventual visibility
			break;
		}
	}
}

static void append_store(void *addr, Loc &L, uint64_t val, int mo, bool rmw, const StoreRec *prev_for_rmw) {
	Run &r = *R;
	int me = r.cur;
	Task &t = r.tasks[me];
	StoreRec s{};
	s.val = val; s.step = r.steps; s.task = (uint8_t)me; s.clk = t.clk.c[me];
	s.has_rel = false; s.rel.clear(); s.is_sc = mo == 5;
	const StoreRec &last = L.hist.back();
	if (rmw && prev_for_rmw && prev_for_rmw->has_rel) { s.has_rel = true; s.rel = prev_for_rmw->rel; }
	// (C++20: only read-modify-writes continue a release sequence; a later plain store of the releasing thread no longer
	//  does — [atomics.order], P0982R1. The code is compiled as C++20, so that rule is the one applied.)
	if (is_rel(mo)) { s.has_rel = true; s.rel.join(t.clk); }
	else if (t.has_fence_rel) { s.has_rel = true; s.rel.join(t.fence_rel); }
	L.hist.push_back(s);
	if (L.hist.size() > 8) { L.hist.erase(L.hist.begin()); L.first++; }
	L.floor[me] = L.first + L.hist.size() - 1;
	t.clk.c[me]++;
	mem_put(addr, L.size, val);
	spin_reset(t);
	wake_watchers(off(addr), L);
}

static bool site_listed(const std::vector<std::pair<int, int>> &v, int opkind, int k) {
	for (auto &x : v) if (x.first == opkind && (x.second < 0 || x.second == k)) return true;
	return false;
}

// choose which store a load observes; returns index into L.hist
static size_t choose_visible(Loc &L, int mo, Task &t, int me) {
	Run &r = *R;
	size_t newest = L.hist.size() - 1;
	uint32_t ak = t.ak++;
	if (r.plan->mem == MEM_SC || r.fair || newest == 0) { L.floor[me] = L.first + newest; return newest; }
	// A seq_cst load must observe the latest seq_cst store that precedes it (or something later), but a store that is
	// NOT seq_cst and does not happen-before the load may still be missed: only the pairing of seq_cst loads with
	// seq_cst stores rules out stale reads.
	size_t sc_lo = 0; bool any_nonsc_after = false;
	if (mo == 5) {
		for (size_t i = newest + 1; i-- > 0;) { if (L.hist[i].is_sc || L.hist[i].task == 0) { sc_lo = i; break; } any_nonsc_after = true; }
		if (!any_nonsc_after) { L.floor[me] = L.first + newest; return newest; }
	}
	// lower bound
	size_t lo = sc_lo;
	if (L.floor[me] > L.first && (size_t)(L.floor[me] - L.first) > lo) lo = (size_t)(L.floor[me] - L.first);
	for (size_t i = newest; i > lo; i--) { const StoreRec &s = L.hist[i]; if (t.clk.c[s.task] >= s.clk + (s.task == 0 ? 0 : 1) || s.task == me) { lo = i; break; } }
	// a store overwritten more than `window` steps ago is no longer readable
	for (size_t i = newest; i > lo; i--) if (L.hist[i].step + (uint64_t)r.plan->window <= r.steps) { lo = i; break; }
	size_t pick = newest;
	if (lo < newest) {
		const Plan &p = *r.plan;
		bool allowed = true;
		if (!p.stale_only.empty() && !site_listed(p.stale_only, t.opkind, (int)ak)) allowed = false;
		if (site_listed(p.stale_disable, t.opkind, (int)ak)) allowed = false;
		if (allowed) {
			if (p.replay) {
				auto it = r.fault_map.find(fkey(F_STALE, me, t.opid, ak));
				if (it != r.fault_map.end()) { int64_t back = it->second; if (back > (int64_t)(newest - lo)) back = (int64_t)(newest - lo); if (back > 0) pick = newest - (size_t)back; }
			} else if (r.rng.below(1000) < (uint64_t)p.stale_q) {
				pick = lo + (size_t)r.rng.below(newest - lo); // strictly older than newest
			}
		}
		if (pick != newest) {
			r.res.fired[FK_STALE]++;
			r.res.faults.push_back({F_STALE, me, t.opid, ak, (int64_t)(newest - pick)});
		}
	}
	L.floor[me] = L.first + pick;
	return pick;
}

static void spin_account(Task &t, uint64_t o, uint64_t val, Loc &L) {
	Run &r = *R;
	int i;
	for (i = 0; i < t.nwatch; i++) if (t.watch_off[i] == o) break;
	if (i < t.nwatch) {
		if (t.watch_val[i] == val) t.spin_n++; else { t.spin_n = 1; t.nwatch = 1; t.watch_off[0] = o; t.watch_val[0] = val; }
	} else if (t.nwatch < 4) { t.watch_off[t.nwatch] = o; t.watch_val[t.nwatch] = val; t.nwatch++; t.spin_n++; }
	else { t.spin_n = 1; t.nwatch = 1; t.watch_off[0] = o; t.watch_val[0] = val; }
	if (t.spin_n < t.spin_limit) return;
	// spinning: park until someone stores to a watched location — unless a newer store is merely not yet visible
	bool newer = false;
	for (int j = 0; j < t.nwatch; j++) {
		auto it = r.locs.find(t.watch_off[j]);
		if (it == r.locs.end()) continue;
		Loc &W = it->second;
		uint64_t newest = W.first + W.hist.size() - 1;
		if (W.floor[r.cur] < newest && W.hist.back().val != t.watch_val[j]) { W.floor[r.cur] = newest; newer = true; }
	}
	(void)L;
	if (newer) { spin_reset(t); return; }
	if (count_enabled() == 1 && r.ntasks == 1) { /* single task spinning forever */ }
	r.eng->on_park(r.cur);
	t.st = T_PARKED; t.parked_at = r.steps;
	forced_switch();
	// resumed: woken by a store
}

static uint64_t do_atomic(int kind, void *addr, int size, uint64_t operand, uint64_t *expected, int mo, int fmo, bool *ok) {
	Run &r = *R;
	sched_point(K_ATOMIC);
	int me = r.cur;
	Task &t = r.tasks[me];
	bool is_write = kind != A_LOAD;
	r.eng->on_access(me, addr, (size_t)size, is_write, true);
	if (mo == 5) { t.clk.join(r.sc_clock); }
	Loc &L = get_loc(addr, size);
	uint64_t result = 0;
	operand = trunc_to(operand, size);
	if (kind == A_LOAD) {
		race_access(addr, (size_t)size, false, true);
		size_t i = choose_visible(L, mo, t, me);
		const StoreRec &s = L.hist[i];
		result = s.val;
		if (s.has_rel) { if (is_acq(mo)) t.clk.join(s.rel); else t.pending_acq.join(s.rel); }
		r.hash = mix(r.hash, (off(addr) << 8) ^ 0xA1 ^ ((uint64_t)me << 56) ^ (norm(result) * 0x9e3779b97f4a7c15ull));
		r.shash = mix(r.shash, (off(addr) << 8) ^ 0xA1 ^ ((uint64_t)me << 56));
		if (mo == 5) r.sc_clock.join(t.clk);
		if (me != 0) spin_account(t, off(addr), result, L);
		return result;
	}
	if (kind == A_STORE) {
		race_access(addr, (size_t)size, true, true);
		append_store(addr, L, operand, mo, false, nullptr);
	} else {
		// RMW family acts on the newest store
		StoreRec newest = L.hist.back();
		uint64_t old = newest.val;
		result = old;
		bool success = true;
		uint64_t nv = old;
		switch (kind) {
		case A_XCHG: nv = operand; break;
		case A_ADD: nv = old + operand; break;
		case A_SUB: nv = old - operand; break;
		case A_AND: nv = old & operand; break;
		case A_OR: nv = old | operand; break;
		case A_XOR: nv = old ^ operand; break;
		case A_NAND: nv = ~(old & operand); break;
		case A_CAS_S: case A_CAS_W: {
			uint64_t exp = trunc_to(*expected, size);
			success = old == exp;
			if (success && kind == A_CAS_W && !r.fair && !t.last_cas_spurious) {
				bool fail = false;
				uint32_t ak = t.ak++;
				if (r.plan->replay) fail = r.fault_map.count(fkey(F_CASFAIL, me, t.opid, ak)) != 0;
				else fail = r.plan->casfail_q && r.rng.below(1000) < (uint64_t)r.plan->casfail_q;
				if (fail) {
					success = false; t.last_cas_spurious = true;
					r.res.fired[FK_CASFAIL]++; r.res.faults.push_back({F_CASFAIL, me, t.opid, ak, 1});
				}
			} else t.last_cas_spurious = false;
			nv = operand;
			if (!success) *expected = old;
			break; }
		}
		nv = trunc_to(nv, size);
		if (success) {
			race_access(addr, (size_t)size, true, true);
			if (newest.has_rel) { if (is_acq(mo)) t.clk.join(newest.rel); else t.pending_acq.join(newest.rel); }
			L.floor[me] = L.first + L.hist.size() - 1;
			append_store(addr, L, nv, mo, true, &newest);
			if (me != 0) r.eng->on_rmw(me, addr, (size_t)size);
		} else {
			race_access(addr, (size_t)size, false, true);
			if (newest.has_rel) { if (is_acq(fmo)) t.clk.join(newest.rel); else t.pending_acq.join(newest.rel); }
			L.floor[me] = L.first + L.hist.size() - 1;
		}
		if (ok) *ok = success;
	}
	if (mo == 5) r.sc_clock.join(t.clk);
	r.hash = mix(r.hash, (off(addr) << 8) ^ (0xB0 + kind) ^ ((uint64_t)me << 56) ^ (norm(result) * 0x9e3779b97f4a7c15ull));
	r.shash = mix(r.shash, (off(addr) << 8) ^ (0xB0 + kind) ^ ((uint64_t)me << 56));
	return result;
}

static void do_fence(int mo) {
	Run *r = R;
	if (!r || !r->active) return;
	Task &t = r->tasks[r->cur];
	sched_point(K_ATOMIC);
	if (is_acq(mo)) t.clk.join(t.pending_acq);
	if (is_rel(mo)) { t.fence_rel = t.clk; t.has_fence_rel = true; t.clk.c[r->cur]++; }
	if (mo == 5) { t.clk.join(r->sc_clock); r->sc_clock.join(t.clk); }
}

uint64_t user_atomic_load(void *p, int size, bool acquire) {
	Run &r = *R;
	sched_point(K_ATOMIC);
	int me = r.cur; Task &t = r.tasks[me];
	race_access(p, (size_t)size, false, true);
	Loc &L = get_loc(p, size);
	const StoreRec &s = L.hist.back();
	if (acquire && s.has_rel) t.clk.join(s.rel);
	L.floor[me] = L.first + L.hist.size() - 1;
	r.hash = mix(r.hash, (off(p) << 8) ^ 0xC1 ^ ((uint64_t)me << 56) ^ s.val);
	return s.val;
}
void user_atomic_store(void *p, int size, uint64_t v, bool release) {
	Run &r = *R;
	sched_point(K_ATOMIC);
	race_access(p, (size_t)size, true, true);
	Loc &L = get_loc(p, size);
	// harness stores do not continue release sequences: exactly the declared edge
	StoreRec s{}; s.val = v; s.step = r.steps; s.task = (uint8_t)r.cur; s.clk = r.tasks[r.cur].clk.c[r.cur];
	s.has_rel = release; s.rel.clear(); if (release) s.rel = r.tasks[r.cur].clk;
	L.hist.push_back(s);
	if (L.hist.size() > 8) { L.hist.erase(L.hist.begin()); L.first++; }
	L.floor[r.cur] = L.first + L.hist.size() - 1;
	r.tasks[r.cur].clk.c[r.cur]++;
	mem_put(p, size, v);
	r.hash = mix(r.hash, (off(p) << 8) ^ 0xC2 ^ ((uint64_t)r.cur << 56) ^ v);
}

uint64_t user_atomic_exchange(void *p, int size, uint64_t v) {
	Run &r = *R;
	sched_point(K_ATOMIC);
	int me = r.cur; Task &t = r.tasks[me];
	race_access(p, (size_t)size, true, true);
	Loc &L = get_loc(p, size);
	StoreRec prev = L.hist.back();
	if (prev.has_rel) t.clk.join(prev.rel);
	StoreRec s{}; s.val = v; s.step = r.steps; s.task = (uint8_t)me; s.clk = t.clk.c[me];
	s.has_rel = true; s.rel = t.clk; if (prev.has_rel) s.rel.join(prev.rel);
	L.hist.push_back(s);
	if (L.hist.size() > 8) { L.hist.erase(L.hist.begin()); L.first++; }
	L.floor[me] = L.first + L.hist.size() - 1;
	t.clk.c[me]++;
	mem_put(p, size, v);
	r.hash = mix(r.hash, (off(p) << 8) ^ 0xC3 ^ ((uint64_t)me << 56) ^ v);
	return prev.val;
}

// ------------------------------------------------------------------ SimMutex
SimMutex::SimMutex() : owner(-1), shared(0), n_lock(0), n_unlock(0), n_lock_shared(0), n_unlock_shared(0), reg(0) {
	clk.clear(); memset(shared_by, 0, sizeof shared_by);
	if (R && R->active) { reg = (uint32_t)R->mutexes.size(); R->mutexes.push_back(this); }
}
SimMutex::~SimMutex() {}

void SimMutex::lock() {
	Run &r = *R;
	sched_point(K_SYNC);
	int me = r.cur; Task &t = r.tasks[me];
	n_lock++;
	if (owner == me || shared_by[me]) violation("self_deadlock", "task %d locks mutex #%u which it already holds (lock() #%u on this mutex)", me, reg, n_lock);
	while (owner != -1 || shared != 0) {
		if (me == 0) violation("deadlock", "setup/teardown context blocks on mutex #%u held by task %d", reg, owner);
		t.st = T_BLOCKED; t.blocked_on = this;
		forced_switch();
	}
	owner = me; t.held++;
	t.clk.join(clk);
	spin_reset(t);
	r.hash = mix(r.hash, 0xD100 ^ ((uint64_t)me << 56) ^ ((uint64_t)reg << 16));
	r.shash = mix(r.shash, 0xD100 ^ ((uint64_t)me << 56) ^ ((uint64_t)reg << 16));
}
bool SimTryMutex::try_lock() {
	Run &r = *R;
	sched_point(K_SYNC);
	int me = r.cur; Task &t = r.tasks[me];
	if (owner == me || shared_by[me]) violation("self_deadlock", "task %d try_lock()s mutex #%u which it already holds", me, reg);
	bool ok = owner == -1 && shared == 0;
	if (ok) { n_lock++; owner = me; t.held++; t.clk.join(clk); spin_reset(t); }
	r.hash = mix(r.hash, 0xD180 ^ ((uint64_t)me << 56) ^ ((uint64_t)reg << 16) ^ (ok ? 1 : 0));
	r.shash = mix(r.shash, 0xD180 ^ ((uint64_t)me << 56) ^ ((uint64_t)reg << 16) ^ (ok ? 1 : 0));
	return ok;
}
static void wake_blocked(SimMutex *m) {
	Run &r = *R;
	for (int u = 1; u <= r.ntasks; u++) if (r.tasks[u].st == T_BLOCKED && r.tasks[u].blocked_on == m) { r.tasks[u].st = T_RUN; r.tasks[u].blocked_on = nullptr; }
}
void SimMutex::unlock() {
	Run &r = *R;
	sched_point(K_SYNC);
	int me = r.cur; Task &t = r.tasks[me];
	n_unlock++;
	if (owner != me) violation("unlock_by_non_owner", "task %d unlocks mutex #%u owned by %d (unlock() #%u, lock() calls so far %u)", me, reg, owner, n_unlock, n_lock);
	clk = t.clk; t.clk.c[me]++;
	owner = -1; t.held--;
	wake_blocked(this);
	spin_reset(t);
	r.hash = mix(r.hash, 0xD200 ^ ((uint64_t)me << 56) ^ ((uint64_t)reg << 16));
	r.shash = mix(r.shash, 0xD200 ^ ((uint64_t)me << 56) ^ ((uint64_t)reg << 16));
}
void SimMutex::lock_shared() {
	Run &r = *R;
	sched_point(K_SYNC);
	int me = r.cur; Task &t = r.tasks[me];
	n_lock_shared++;
	if (owner == me) violation("self_deadlock", "task %d lock_shared()s mutex #%u which it holds exclusively", me, reg);
	while (owner != -1) {
		if (me == 0) violation("deadlock", "setup/teardown context blocks on mutex #%u", reg);
		t.st = T_BLOCKED; t.blocked_on = this;
		forced_switch();
	}
	shared++; shared_by[me]++; t.held++;
	t.clk.join(clk);
	r.hash = mix(r.hash, 0xD300 ^ ((uint64_t)me << 56) ^ ((uint64_t)reg << 16));
}
void SimMutex::unlock_shared() {
	Run &r = *R;
	sched_point(K_SYNC);
	int me = r.cur; Task &t = r.tasks[me];
	n_unlock_shared++;
	if (!shared_by[me]) violation("unlock_by_non_owner", "task %d unlock_shared()s mutex #%u it does not hold shared (exclusive owner %d)", me, reg, owner);
	clk.join(t.clk); t.clk.c[me]++;
	shared--; shared_by[me]--; t.held--;
	if (!shared) wake_blocked(this);
	r.hash = mix(r.hash, 0xD400 ^ ((uint64_t)me << 56) ^ ((uint64_t)reg << 16));
}

// ------------------------------------------------------------------ task bodies
static void begin_op(Task &t, const Op &op) {
	t.opid = op.id; t.opkind = op.kind; t.k = 0; t.ak = 0;
	spin_reset(t); t.last_cas_spurious = false;
	R->hash = mix(R->hash, 0xE000 ^ ((uint64_t)R->cur << 56) ^ ((uint64_t)op.kind << 24) ^ (uint64_t)op.id);
	sched_point(K_SYNC);
}

static void task_entry() {
	Run &r = *R;
	int me = r.cur;
	Task &t = r.tasks[me];
	for (const Op &op : r.task_ops[me]) {
		begin_op(t, op);
		r.eng->exec(me, op);
	}
	t.opid = -4; t.opkind = -4; t.k = 0; t.ak = 0; spin_reset(t);
	r.eng->end_of_plan(me);
	// barrier: the fair closing phase starts when every task finished its plan
	t.opid = -2; t.opkind = -2; t.k = 0; t.ak = 0; spin_reset(t);
	r.nbar++;
	if (r.nbar == r.ntasks) {
		r.fair = true; r.bar_released = true;
		for (int u = 1; u <= r.ntasks; u++) if (r.tasks[u].st == T_ATBAR) r.tasks[u].st = T_RUN;
	} else if (!r.bar_released) {
		t.st = T_ATBAR;
		forced_switch();
	}
	r.eng->closing(me);
	t.opid = -3; t.k = 0;
	t.st = T_DONE;
	t.clk.c[me]++;
	forced_switch();
	abort();
}

// Strings of a verdict produced in signal context are staged in static buffers and turned into std::strings after the
// handler has been left (no allocation in signal context); a handler that faults itself gives up with a diagnostic.
static char sig_cls[64], sig_msg[256], sig_stop[96];
static volatile int sig_pending = 0, crash_depth = 0;
static void sig_flush(Run &r) {
	if (sig_pending & 1) { r.res.v.cls = sig_cls; r.res.v.msg = sig_msg; }
	if (sig_pending & 2) r.res.stop_reason = sig_stop;
	sig_pending = 0; crash_depth = 0;
}
static void crash_handler(int sig, siginfo_t *si, void *) {
	Run *r = R;
	if (++crash_depth > 3) { static const char m[] = "simrt: crash handler re-entered (fault inside the handler); giving up\n"; if (write(2, m, sizeof m - 1)) {} _exit(71); }
	const char *name = sig == SIGSEGV ? "SIGSEGV" : sig == SIGBUS ? "SIGBUS" : sig == SIGILL ? "SIGILL" : sig == SIGFPE ? "SIGFPE" : "SIG?";
	if (prep_armed) { if (sig == SIGSEGV && prep_engine && prep_engine->on_fault(si->si_addr) == 1) { crash_depth--; return; } crash_depth = 0; siglongjmp(prep_jb, 1); }
	if (!r || !r->active) { signal(sig, SIG_DFL); raise(sig); return; }
	if (sig == SIGSEGV) {
		int h = r->eng->on_fault(si->si_addr);
		if (h == 1) { crash_depth--; return; }
		if (h == 2) {
			r->res.stopped = true; snprintf(sig_stop, sizeof sig_stop, "engine resource budget (lazily committed pages)"); sig_pending |= 2;
			if (r->cur != 0) { r->cur = 0; setcontext(&r->main_ctx); }
			if (crash_jb_armed) siglongjmp(crash_jb, 1);
			_exit(70);
		}
	}
	if (!r->res.v.set) {
		r->res.v.set = true; snprintf(sig_cls, sizeof sig_cls, "crash:%s", name);
		bool ina = in_arena(si->si_addr);
		snprintf(sig_msg, sizeof sig_msg, "code under test raised %s (fault address %s+0x%llx)", name, ina ? "arena" : "abs", (unsigned long long)(ina ? off(si->si_addr) : (sig == SIGSEGV || sig == SIGBUS ? (uint64_t)si->si_addr : 0)));
		sig_pending |= 1; r->res.v.step = r->steps; r->res.v.task = r->cur;
		r->res.v.opid = r->tasks[r->cur].opid; r->res.v.opkind = r->tasks[r->cur].opkind;
	}
	if (r->cur != 0) { r->cur = 0; setcontext(&r->main_ctx); }
	if (crash_jb_armed) siglongjmp(crash_jb, 1);
	_exit(70);
}

static volatile uint64_t wd_last_steps = 0; static volatile int wd_idle = 0; static volatile uint64_t wd_run_id = 0, wd_last_run = 0;
static void watchdog_handler(int, siginfo_t *, void *) {
	Run *r = R;
	if (!r || !r->active) { wd_idle = 0; return; }
	if (wd_last_run == wd_run_id && wd_last_steps == r->steps) wd_idle++; else wd_idle = 0;
	wd_last_run = wd_run_id; wd_last_steps = r->steps;
	if (wd_idle < 3) return;
	wd_idle = 0;
	if (!r->res.v.set) {
		r->res.v.set = true; snprintf(sig_cls, sizeof sig_cls, "no_progress");
		snprintf(sig_msg, sizeof sig_msg, "the code under test consumed more than 3 s of CPU without reaching any instrumented access (a loop with no shared-memory access that cannot be left)");
		sig_pending |= 1; r->res.v.step = r->steps; r->res.v.task = r->cur; r->res.v.opid = r->tasks[r->cur].opid; r->res.v.opkind = r->tasks[r->cur].opkind;
	}
	if (r->cur != 0) { r->cur = 0; setcontext(&r->main_ctx); }
	if (crash_jb_armed) siglongjmp(crash_jb, 1);
}

static void install_handlers() {
	static bool done = false;
	if (done) return;
	done = true;
	// (a signal frame alone is ~12 KiB on CPUs with AMX state, and handlers nest: SIGPROF inside SIGSEGV inside a lazily committed page fault)
	static const size_t ALT = 1 << 20;
	char *altstack = (char *)mmap(nullptr, ALT, PROT_READ | PROT_WRITE, MAP_PRIVATE | MAP_ANONYMOUS, -1, 0);
	stack_t ss; ss.ss_sp = altstack; ss.ss_size = ALT; ss.ss_flags = 0;
	sigaltstack(&ss, nullptr);
	struct sigaction sa; memset(&sa, 0, sizeof sa);
	sa.sa_sigaction = crash_handler; sa.sa_flags = SA_SIGINFO | SA_ONSTACK | SA_NODEFER;
	sigemptyset(&sa.sa_mask);
	sigaction(SIGSEGV, &sa, nullptr); sigaction(SIGBUS, &sa, nullptr); sigaction(SIGILL, &sa, nullptr); sigaction(SIGFPE, &sa, nullptr);
	struct sigaction wa; memset(&wa, 0, sizeof wa);
	wa.sa_sigaction = watchdog_handler; wa.sa_flags = SA_SIGINFO | SA_ONSTACK | SA_NODEFER | SA_RESTART;
	sigemptyset(&wa.sa_mask);
	sigaction(SIGPROF, &wa, nullptr); // CPU time of this process, not wall time: a starved worker must not look hung
	struct itimerval it; it.it_interval.tv_sec = 1; it.it_interval.tv_usec = 0; it.it_value = it.it_interval;
	setitimer(ITIMER_PROF, &it, nullptr);
}

static uint64_t hash_plan(const Plan &p) {
	uint64_t h = mix(0x1234, (uint64_t)p.cfg * 31 + (uint64_t)p.ntasks);
	for (auto &o : p.ops) { h = mix(h, ((uint64_t)o.task << 48) ^ ((uint64_t)o.kind << 32) ^ (uint64_t)o.id); for (int i = 0; i < 4; i++) h = mix(h, (uint64_t)o.a[i]); h = mix(h, ((uint64_t)o.mapfail << 32) | o.place); }
	for (auto &kv : p.knobs) h = mix(h, (uint64_t)kv.second);
	return h;
}

static char *task_stacks[MAXT];

RunResult execute(Engine *e, const Plan &p) {
	init_memory();
	install_handlers();
	static Run *run_storage = nullptr;
	R = nullptr; // (a signal between the delete and the assignment below must not see the old object)
	delete run_storage;
	run_storage = new Run();
	R = run_storage;
	Run &r = *R;
	r.eng = e; r.plan = &p; r.ntasks = p.ntasks;
	r.rng.seed(p.seed ^ 0x5ced5ced5cedull);
	r.frng.seed(p.seed ^ 0xf111f111f111ull);
	r.cap1 = (uint64_t)p.knob("cap1", 400000);
	r.cap2 = (uint64_t)p.knob("cap2", 40000000);
	r.res.plan_hash = hash_plan(p);
	r.hash = r.res.plan_hash;
	r.sc_clock.clear();
	r.task_ops.assign(MAXT, {});
	for (auto &o : p.ops) if (o.task >= 1 && o.task <= p.ntasks) r.task_ops[o.task].push_back(o);
	if (p.replay) {
		for (auto &s : p.sched) r.sched_map[skey(s.task, s.opid, s.k)] = s.next;
		for (auto &f : p.faults) r.fault_map[fkey(f.kind, f.task, f.opid, f.k)] = f.v;
	}
	// tasks
	for (int t = 0; t < MAXT; t++) { r.tasks[t].clk.clear(); r.tasks[t].pending_acq.clear(); r.tasks[t].fence_rel.clear(); }
	r.tasks[0].clk.c[0] = 1; r.tasks[0].st = T_RUN;
	// strategy setup (seeded mode)
	size_t nops = p.ops.size();
	if (!p.replay) {
		if (p.strat == S_PCT) {
			int d = p.strat_arg < 1 ? 1 : p.strat_arg;
			std::vector<int> pr; for (int t = 1; t <= p.ntasks; t++) pr.push_back(t + d);
			for (size_t i = pr.size(); i > 1; i--) std::swap(pr[i - 1], pr[r.rng.below(i)]);
			for (int t = 1; t <= p.ntasks; t++) r.tasks[t].prio = pr[t - 1];
			static const int per_op[] = {8, 30, 100, 300, 1000};
			uint64_t K = (uint64_t)(nops + 1) * per_op[r.rng.below(5)];
			for (int i = 0; i < d - 1; i++) r.change_pts.push_back(r.rng.below(K));
			std::sort(r.change_pts.begin(), r.change_pts.end());
			r.low_prio = 0;
		} else if (p.strat == S_STALL) {
			r.stall_task = 1 + (int)r.rng.below(p.ntasks);
			uint64_t K = (uint64_t)(nops + 1) * 40;
			r.stall_from = r.rng.below(K); r.stall_to = r.stall_from + 50 + r.rng.below(K);
			if (p.knob("stall_hold", 0)) { r.stall_hold = true; r.stall_task = (int)p.knob("stall_task", 1); r.stall_from = (uint64_t)p.knob("stall_from", 0); r.stall_to = UINT64_MAX; }
		}
	}
	// prepare() runs code under test outside a run (calibration): a panic or crash there must not kill the worker
	prep_armed = true; prep_engine = e;
	if (sigsetjmp(prep_jb, 1) == 0) e->prepare(p);
	prep_armed = false;
	wd_run_id++;
	r.active = true;
	r.cur = 0;
	crash_jb_armed = true;
	if (sigsetjmp(crash_jb, 1) == 0) {
		try {
			e->setup(p);
			r.tasks[0].clk.c[0]++;
			for (int t = 1; t <= p.ntasks; t++) {
				Task &x = r.tasks[t];
				if (!task_stacks[t]) { // with an inaccessible page below it: running off the stack (unbounded recursion in code under test) is a fault, not silent corruption
					char *m = (char *)mmap(nullptr, STACK_SZ + 4096, PROT_READ | PROT_WRITE, MAP_PRIVATE | MAP_ANONYMOUS, -1, 0);
					mprotect(m, 4096, PROT_NONE); task_stacks[t] = m + 4096;
				}
				x.stack = task_stacks[t];
				getcontext(&x.ctx);
				x.ctx.uc_stack.ss_sp = x.stack; x.ctx.uc_stack.ss_size = STACK_SZ; x.ctx.uc_link = nullptr;
				makecontext(&x.ctx, (void (*)())task_entry, 0);
				x.st = T_RUN; x.clk = r.tasks[0].clk; x.clk.c[t] = 1;
			}
			// first task
			int first = 1;
			{
				r.tasks[0].opid = -1; r.tasks[0].k = 0;
				if (p.replay) { auto it = r.sched_map.find(skey(0, -1, 0)); if (it != r.sched_map.end() && it->second >= 1 && it->second <= p.ntasks) first = it->second; }
				else if (p.strat == S_PCT) first = best_prio();
				else if (p.strat != S_SEQ) first = 1 + (int)r.rng.below(p.ntasks);
				if (first != 1) r.res.sched.push_back({0, -1, 0, first});
			}
			r.cur = first;
			swapcontext(&r.main_ctx, &r.tasks[first].ctx);
			r.cur = 0;
			if (!r.res.v.set && !r.res.stopped) {
				for (int t = 1; t <= p.ntasks; t++) r.tasks[0].clk.join(r.tasks[t].clk);
				r.fair = true;
				e->finish();
			}
		} catch (ViolationEx &) {
		} catch (StopEx &) {
		}
	} else {
		r.cur = 0; // crash in main context
	}
	crash_jb_armed = false;
	r.cur = 0;
	sig_flush(r);
	try { e->cleanup(); } catch (...) {}
	r.active = false;
	r.res.steps = r.steps;
	r.res.hash = mix(r.hash, r.res.v.set ? std::hash<std::string>{}(r.res.v.cls) : 0);
	r.res.sched_hash = r.shash;
	// shadow cleanup
	for (uint32_t pg : touched_pages) { memset(shadow + ((size_t)pg << 12), 0, 4096 * sizeof(Cell)); page_touched[pg] = 0; }
	touched_pages.clear(); vcpool.clear();
	RunResult out = std::move(r.res);
	return out;
}

} // namespace sim

// ------------------------------------------------------------------ C entry points
using namespace sim;

extern "C" {

void frg_panic(const char *msg) {
	if (R && R->active) {
		if (R->eng->panic_is_stop(msg)) stop_run(msg);
		violation("panic", "%s", msg);
	}
	if (prep_armed) siglongjmp(prep_jb, 1);
	fprintf(stderr, "frg_panic outside run: %s\n", msg);
	abort();
}
void frg_log(const char *) {}

void *simrt_memcpy(void *d, const void *s, size_t n) {
	Run *r = R;
	if (r && r->active && n && (in_arena(d) || in_arena(s))) {
		sched_point(K_PLAIN);
		if (in_arena(s)) { r->eng->on_access(r->cur, s, n, false, false); race_access(s, n, false, false); }
		if (in_arena(d)) { r->eng->on_access(r->cur, d, n, true, false); race_access(d, n, true, false); }
		r->hash = mix(r->hash, 0xF100 ^ (n << 16));
	}
	if (r && r->active && n) { if (in_aux(s)) r->eng->on_access(r->cur, s, n, false, false); if (in_aux(d)) r->eng->on_access(r->cur, d, n, true, false); }
	return memcpy(d, s, n);
}
void *simrt_memmove(void *d, const void *s, size_t n) {
	Run *r = R;
	if (r && r->active && n && (in_arena(d) || in_arena(s))) {
		sched_point(K_PLAIN);
		if (in_arena(s)) { r->eng->on_access(r->cur, s, n, false, false); race_access(s, n, false, false); }
		if (in_arena(d)) { r->eng->on_access(r->cur, d, n, true, false); race_access(d, n, true, false); }
	}
	if (r && r->active && n) { if (in_aux(s)) r->eng->on_access(r->cur, s, n, false, false); if (in_aux(d)) r->eng->on_access(r->cur, d, n, true, false); }
	return memmove(d, s, n);
}
void *simrt_memset(void *d, int c, size_t n) {
	Run *r = R;
	if (r && r->active && n && in_arena(d)) {
		sched_point(K_PLAIN);
		r->eng->on_access(r->cur, d, n, true, false); race_access(d, n, true, false);
	}
	if (r && r->active && n && in_aux(d)) r->eng->on_access(r->cur, d, n, true, false);
	return memset(d, c, n);
}

void __tsan_init() {}
void __tsan_func_entry(void *) {}
void __tsan_func_exit() {}
void __tsan_read1(void *a) { on_plain(a, 1, false); }
void __tsan_read2(void *a) { on_plain(a, 2, false); }
void __tsan_read4(void *a) { on_plain(a, 4, false); }
void __tsan_read8(void *a) { on_plain(a, 8, false); }
void __tsan_read16(void *a) { on_plain(a, 16, false); }
void __tsan_write1(void *a) { on_plain(a, 1, true); }
void __tsan_write2(void *a) { on_plain(a, 2, true); }
void __tsan_write4(void *a) { on_plain(a, 4, true); }
void __tsan_write8(void *a) { on_plain(a, 8, true); }
void __tsan_write16(void *a) { on_plain(a, 16, true); }
void __tsan_unaligned_read2(void *a) { on_plain(a, 2, false); }
void __tsan_unaligned_read4(void *a) { on_plain(a, 4, false); }
void __tsan_unaligned_read8(void *a) { on_plain(a, 8, false); }
void __tsan_unaligned_read16(void *a) { on_plain(a, 16, false); }
void __tsan_unaligned_write2(void *a) { on_plain(a, 2, true); }
void __tsan_unaligned_write4(void *a) { on_plain(a, 4, true); }
void __tsan_unaligned_write8(void *a) { on_plain(a, 8, true); }
void __tsan_unaligned_write16(void *a) { on_plain(a, 16, true); }
void __tsan_read1_pc(void *a, void *) { on_plain(a, 1, false); }
void __tsan_read2_pc(void *a, void *) { on_plain(a, 2, false); }
void __tsan_read4_pc(void *a, void *) { on_plain(a, 4, false); }
void __tsan_read8_pc(void *a, void *) { on_plain(a, 8, false); }
void __tsan_write1_pc(void *a, void *) { on_plain(a, 1, true); }
void __tsan_write2_pc(void *a, void *) { on_plain(a, 2, true); }
void __tsan_write4_pc(void *a, void *) { on_plain(a, 4, true); }
void __tsan_write8_pc(void *a, void *) { on_plain(a, 8, true); }
void __tsan_vptr_update(void **a, void *) { on_plain(a, 8, true); }
void __tsan_vptr_read(void **a) { on_plain(a, 8, false); }
void __tsan_read_range(void *a, unsigned long n) { if (n) on_plain(a, n, false); }
void __tsan_write_range(void *a, unsigned long n) { if (n) on_plain(a, n, true); }
void __tsan_read_range_pc(void *a, unsigned long n, void *) { if (n) on_plain(a, n, false); }
void __tsan_write_range_pc(void *a, unsigned long n, void *) { if (n) on_plain(a, n, true); }
void *__tsan_memcpy(void *d, const void *s, size_t n) { return simrt_memcpy(d, s, n); }
void *__tsan_memset(void *d, int c, size_t n) { return simrt_memset(d, c, n); }
void *__tsan_memmove(void *d, const void *s, size_t n) { return simrt_memmove(d, s, n); }

static inline bool tracked(const volatile void *a) { return R && R->active && in_arena((const void *)a); }

#define ATOMIC_FUNCS(BITS, T) \
T __tsan_atomic##BITS##_load(const volatile T *a, int mo) { \
	if (!tracked(a)) return __atomic_load_n(a, __ATOMIC_SEQ_CST); \
	return (T)do_atomic(A_LOAD, (void *)a, BITS / 8, 0, nullptr, mo, 0, nullptr); } \
void __tsan_atomic##BITS##_store(volatile T *a, T v, int mo) { \
	if (!tracked(a)) { __atomic_store_n(a, v, __ATOMIC_SEQ_CST); return; } \
	do_atomic(A_STORE, (void *)a, BITS / 8, (uint64_t)v, nullptr, mo, 0, nullptr); } \
T __tsan_atomic##BITS##_exchange(volatile T *a, T v, int mo) { \
	if (!tracked(a)) return __atomic_exchange_n(a, v, __ATOMIC_SEQ_CST); \
	return (T)do_atomic(A_XCHG, (void *)a, BITS / 8, (uint64_t)v, nullptr, mo, 0, nullptr); } \
T __tsan_atomic##BITS##_fetch_add(volatile T *a, T v, int mo) { \
	if (!tracked(a)) return __atomic_fetch_add(a, v, __ATOMIC_SEQ_CST); \
	return (T)do_atomic(A_ADD, (void *)a, BITS / 8, (uint64_t)v, nullptr, mo, 0, nullptr); } \
T __tsan_atomic##BITS##_fetch_sub(volatile T *a, T v, int mo) { \
	if (!tracked(a)) return __atomic_fetch_sub(a, v, __ATOMIC_SEQ_CST); \
	return (T)do_atomic(A_SUB, (void *)a, BITS / 8, (uint64_t)v, nullptr, mo, 0, nullptr); } \
T __tsan_atomic##BITS##_fetch_and(volatile T *a, T v, int mo) { \
	if (!tracked(a)) return __atomic_fetch_and(a, v, __ATOMIC_SEQ_CST); \
	return (T)do_atomic(A_AND, (void *)a, BITS / 8, (uint64_t)v, nullptr, mo, 0, nullptr); } \
T __tsan_atomic##BITS##_fetch_or(volatile T *a, T v, int mo) { \
	if (!tracked(a)) return __atomic_fetch_or(a, v, __ATOMIC_SEQ_CST); \
	return (T)do_atomic(A_OR, (void *)a, BITS / 8, (uint64_t)v, nullptr, mo, 0, nullptr); } \
T __tsan_atomic##BITS##_fetch_xor(volatile T *a, T v, int mo) { \
	if (!tracked(a)) return __atomic_fetch_xor(a, v, __ATOMIC_SEQ_CST); \
	return (T)do_atomic(A_XOR, (void *)a, BITS / 8, (uint64_t)v, nullptr, mo, 0, nullptr); } \
T __tsan_atomic##BITS##_fetch_nand(volatile T *a, T v, int mo) { \
	if (!tracked(a)) return __atomic_fetch_nand(a, v, __ATOMIC_SEQ_CST); \
	return (T)do_atomic(A_NAND, (void *)a, BITS / 8, (uint64_t)v, nullptr, mo, 0, nullptr); } \
int __tsan_atomic##BITS##_compare_exchange_strong(volatile T *a, T *c, T v, int mo, int fmo) { \
	if (!tracked(a)) return __atomic_compare_exchange_n(a, c, v, false, __ATOMIC_SEQ_CST, __ATOMIC_SEQ_CST); \
	uint64_t e = (uint64_t)*c; bool ok = false; \
	do_atomic(A_CAS_S, (void *)a, BITS / 8, (uint64_t)v, &e, mo, fmo, &ok); *c = (T)e; return ok; } \
int __tsan_atomic##BITS##_compare_exchange_weak(volatile T *a, T *c, T v, int mo, int fmo) { \
	if (!tracked(a)) return __atomic_compare_exchange_n(a, c, v, false, __ATOMIC_SEQ_CST, __ATOMIC_SEQ_CST); \
	uint64_t e = (uint64_t)*c; bool ok = false; \
	do_atomic(A_CAS_W, (void *)a, BITS / 8, (uint64_t)v, &e, mo, fmo, &ok); *c = (T)e; return ok; } \
T __tsan_atomic##BITS##_compare_exchange_val(volatile T *a, T c, T v, int mo, int fmo) { \
	if (!tracked(a)) { __atomic_compare_exchange_n(a, &c, v, false, __ATOMIC_SEQ_CST, __ATOMIC_SEQ_CST); return c; } \
	uint64_t e = (uint64_t)c; bool ok = false; \
	do_atomic(A_CAS_S, (void *)a, BITS / 8, (uint64_t)v, &e, mo, fmo, &ok); return ok ? c : (T)e; }

ATOMIC_FUNCS(8, uint8_t)
ATOMIC_FUNCS(16, uint16_t)
ATOMIC_FUNCS(32, uint32_t)
ATOMIC_FUNCS(64, uint64_t)

void __tsan_atomic_thread_fence(int mo) { do_fence(mo); }
void __tsan_atomic_signal_fence(int) {}

} // extern "C"
