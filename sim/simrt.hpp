// simrt — deterministic simulation runtime for frigg (see /verif/DESIGN.md §2, App. A).
//
// One OS thread. Simulated threads are ucontext coroutines. Every instrumented
// memory access of the code under test (TSan ABI, our own runtime), every
// simulated-mutex operation and every explicit harness access is a *hook*: a
// possible preemption, a race-detector event and (atomics) a memory-model op.
#pragma once
#include <stddef.h>
#include <stdint.h>
#include <string.h>
#include <map>
#include <string>
#include <vector>

namespace sim {

constexpr int MAXT = 9; // task 0 = setup/teardown pseudo task, 1..8 = simulated threads

// ---------------------------------------------------------------- PRNG
struct Rng {
	uint64_t s[4];
	void seed(uint64_t x);
	uint64_t next();
	uint64_t below(uint64_t n) { return n ? next() % n : 0; }
	bool chance(uint32_t num, uint32_t den) { return below(den) < num; }
	int64_t range(int64_t lo, int64_t hi) { return lo + (int64_t)below((uint64_t)(hi - lo + 1)); }
};
uint64_t splitmix(uint64_t base, uint64_t i);

// ---------------------------------------------------------------- vector clocks
struct VC {
	uint32_t c[MAXT];
	void clear() { memset(c, 0, sizeof c); }
	void join(const VC &o) { for (int i = 0; i < MAXT; i++) if (o.c[i] > c[i]) c[i] = o.c[i]; }
	bool leq(const VC &o) const { for (int i = 0; i < MAXT; i++) if (c[i] > o.c[i]) return false; return true; }
};

// ---------------------------------------------------------------- plan / trace
struct Op {
	int task = 1;      // 1..ntasks
	int id = 0;        // stable id within the task (survives shrinking)
	int kind = 0;      // engine specific
	int64_t a[4] = {0, 0, 0, 0};
	uint32_t mapfail = 0; // bit j: j-th Policy::map call made inside this op fails
	uint32_t place = 0;   // placement seed for map calls inside this op
};

struct SchedEntry { int task, opid; uint32_t k; int next; };
enum { F_STALE = 1, F_CASFAIL = 2 };
struct FaultEntry { int kind, task, opid; uint32_t k; int64_t v; };

enum { S_SEQ = 0, S_RAND, S_PCT, S_SYNC, S_STALL, S_NSTRAT };
enum { MEM_SC = 0, MEM_RELAXED = 1 };

struct Plan {
	std::string engine, profile;
	int cfg = 0;        // engine specific configuration id
	int ntasks = 1;
	int mem = MEM_SC;
	uint64_t seed = 0;  // run seed (schedule/fault PRNG in seeded mode; garbage fill always)
	int strat = S_SEQ, strat_arg = 0; // seeded mode only
	int stale_q = 0;    // relaxed mode: per-mille chance that a load is allowed to be stale
	int window = 0;     // relaxed mode: staleness bound in steps
	int casfail_q = 0;  // per-mille spurious failure of compare_exchange_weak
	std::map<std::string, int64_t> knobs; // engine specific
	std::vector<Op> ops; // all tasks, each task's ops in program order
	// replay mode: decisions come from these lists only
	bool replay = false;
	std::vector<SchedEntry> sched;
	std::vector<FaultEntry> faults;
	// fault-site filters (known-finding handling): "opkind:k"
	std::vector<std::pair<int, int>> stale_disable, stale_only;
	int64_t knob(const char *k, int64_t d = 0) const { auto it = knobs.find(k); return it == knobs.end() ? d : it->second; }
};

struct Violation {
	bool set = false;
	std::string cls, msg;
	uint64_t step = 0;
	int task = 0, opid = -1, opkind = -1;
};

struct RunResult {
	Violation v;
	uint64_t steps = 0, hash = 0, sched_hash = 0, plan_hash = 0;
	uint64_t preemptions = 0, switches = 0;
	bool stopped = false;       // engine requested a graceful stop (precondition stop)
	std::string stop_reason;
	bool capped = false;        // generated phase hit its step cap (closing phase ran fair)
	std::vector<SchedEntry> sched;   // recorded decisions (non-default)
	std::vector<FaultEntry> faults;  // recorded fired faults
	uint64_t fired[8] = {0};         // per fault kind, this run
};

// Fault kinds counted in stats (fired, not configured)
enum { FK_STALE = 0, FK_CASFAIL, FK_MAPFAIL, FK_PLACEMENT, FK_STALL, FK_YIELD, FK_NKINDS };
extern const char *fault_kind_names[FK_NKINDS];

// ---------------------------------------------------------------- engine interface
struct Engine {
	virtual ~Engine() {}
	virtual const char *name() = 0;
	virtual void generate(Rng &rng, Plan &p, const std::string &profile, int tier) = 0;
	virtual void prepare(const Plan &p) {}             // before the run becomes active (no hooks): caches, calibration
	virtual void setup(const Plan &p) = 0;             // main context, task 0
	virtual void exec(int task, const Op &op) = 0;     // task context
	virtual void end_of_plan(int task) {}              // task context, right after the task's last plan op
	virtual void closing(int task) {}                  // task context, fair phase
	virtual void finish() {}                           // main context, task 0, after all tasks
	virtual void cleanup() {}                          // always called (even after violation)
	virtual void on_access(int task, const void *addr, size_t n, bool write, bool atomic) {}
	virtual void on_rmw(int task, const void *addr, size_t n) {} // after a successful atomic read-modify-write by code under test
	virtual bool panic_is_stop(const char *msg) { return false; } // documented precondition stop?
	// SIGSEGV at addr while the run is active (signal context): 0 = not the engine's (a crash of the code under test),
	// 1 = the engine made the page accessible, retry the access, 2 = give up on this run without a verdict (resource budget)
	virtual int on_fault(void *addr) { return 0; }
	virtual void on_park(int task) {}                  // task context: the spin heuristic is about to park this task (it re-reads unchanged locations)
	virtual const char *op_name(int kind) = 0;
	virtual int op_kind(const std::string &name) = 0;
	virtual std::vector<Op> simplify(const Op &op) { return {}; }
	virtual const char *property_of(const std::string &cls, const std::string &profile) = 0;
	virtual const char *cfg_name(int cfg) { return ""; }
	virtual void describe(std::map<std::string, std::string> &kv) {}
	// derived fault-enumeration runs (C04): given base result return additional plans
	virtual void derive(const Plan &base, std::vector<Plan> &out) {}
};
Engine *make_engine(); // defined by each engine's harness

// ---------------------------------------------------------------- runtime API (harness side)
extern char *arena;              // 1 GiB aligned
extern size_t arena_size;
inline bool in_arena(const void *p) { return (size_t)((const char *)p - arena) < arena_size; }
// An engine may declare aux_bytes of address space directly behind the arena as its own (simslab: reserved space for huge
// mappings). Instrumented accesses there are reported to Engine::on_access and hashed, but are neither scheduling points
// nor seen by the race detector (there is no shadow for them).
extern size_t aux_bytes;
inline bool in_aux(const void *p) { return (size_t)((const char *)p - arena) - arena_size < aux_bytes; }
inline uint64_t off(const void *p) { return (uint64_t)((const char *)p - arena); }

RunResult execute(Engine *e, const Plan &p);   // one deterministic run

// inside a run:
int cur_task();                  // 0 in main context
int cur_opid(); int cur_opkind();
uint64_t now();                  // step counter ("simulated time")
const Plan &plan();
bool fair_phase();
[[noreturn]] void violation(const char *cls, const char *fmt, ...) __attribute__((format(printf, 2, 3)));
[[noreturn]] void stop_run(const char *reason);
void logev(uint64_t a, uint64_t b = 0, uint64_t c = 0);  // mix into the run hash (never draws PRNG)
Rng &fill_rng();                 // garbage-fill PRNG (not the schedule PRNG)
uint64_t draw_fault(uint64_t n); // engine-level seeded fault choice (seeded mode only; 0 in replay)
void count_fault(int kind);

int probe_id(const char *name);
void probe(int id, uint64_t n = 1);

// explicit user-level accesses (harness plays the library's user)
void user_read(const void *p, size_t n);
void user_write(const void *p, size_t n);
void yield();                    // scheduling hint hook
void progress();                 // reset spin detection of the current task (harness loop boundary)
void sync_hook();
void stall_release();         // ends a long stall (plan knob stall_hold): the stalled task may be scheduled again                // a sync-kind hook without memory effect (op boundary, policy call)
// user-level synchronisation carrying a happens-before edge (mailboxes, grace periods)
struct Channel { VC clk; bool full = false; };
void hb_release(VC &into);       // into ⊔= my clock; my clock ticks
void hb_acquire(const VC &from); // my clock ⊔= from
const VC &my_clock();
const VC &task_clock(int t);
// harness atomics: always fresh, carry exactly the declared edges
uint64_t user_atomic_load(void *p, int size, bool acquire);
void user_atomic_store(void *p, int size, uint64_t v, bool release);
uint64_t user_atomic_exchange(void *p, int size, uint64_t v); // acq_rel

// tracked-memory helpers
void *obj_alloc(size_t n, size_t align = 16); // bump allocation in the object zone (garbage filled)
void shadow_reset(const void *p, size_t n);   // forget race/atomic history for a range (fresh memory)
void shadow_fresh_write(const void *p, size_t n); // pseudo-write by current task (allocation)

// number of pool locks (SimMutex or counted real locks) the current task holds
int locks_held(int task);
void note_lock(int delta);       // for counted real spinlocks

// ---------------------------------------------------------------- SimMutex
struct SimMutex {
	SimMutex();
	~SimMutex();
	SimMutex(const SimMutex &) = delete;
	void lock();
	void unlock();
	void lock_shared();
	void unlock_shared();
	bool is_locked() { return owner != -1; }
	// state (only touched by the uninstrumented runtime)
	int owner;       // task id or -1
	int shared;      // number of shared holders
	uint16_t shared_by[MAXT];
	VC clk;
	uint32_t n_lock, n_unlock, n_lock_shared, n_unlock_shared;
	uint32_t reg;    // registry index in the current run
};

// the same mutex with the optional try_lock() of the standard Lockable concept: code under test that detects the member
// (requires-expression) takes its non-blocking path; fails exactly when the mutex is held (no spurious failures)
struct SimTryMutex : SimMutex {
	bool try_lock();
};

} // namespace sim

extern "C" void frg_panic(const char *msg);
extern "C" void frg_log(const char *msg);
extern "C" void *simrt_memcpy(void *d, const void *s, size_t n);
extern "C" void *simrt_memset(void *d, int c, size_t n);
extern "C" void *simrt_memmove(void *d, const void *s, size_t n);
