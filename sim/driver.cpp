// Generic batch driver: seeded batches, determinism gate, ddmin minimisation, replay files, stats.
// Not instrumented.
#include "simrt.hpp"
#include <stdio.h>
#include <stdlib.h>
#include <string.h>
#include <time.h>
#include <algorithm>
#include <functional>
#include <set>
#include <sstream>
#include <unordered_set>

namespace sim {
const std::vector<std::string> &all_probe_names();
std::vector<uint64_t> &all_probe_counts();
}
using namespace sim;

// ------------------------------------------------------------------ tiny JSON
struct J {
	enum { NUL, NUM, STR, ARR, OBJ, BOOL } t = NUL;
	double num = 0; int64_t inum = 0; bool isint = false; bool b = false;
	std::string s;
	std::vector<J> a;
	std::vector<std::pair<std::string, J>> o;
	const J *get(const char *k) const { for (auto &kv : o) if (kv.first == k) return &kv.second; return nullptr; }
	int64_t i(const char *k, int64_t d = 0) const { auto x = get(k); return x && x->t == NUM ? x->inum : d; }
	std::string str(const char *k, const char *d = "") const { auto x = get(k); return x && x->t == STR ? x->s : d; }
};
struct JP {
	const char *p, *e;
	void ws() { while (p < e && (*p == ' ' || *p == '\n' || *p == '\t' || *p == '\r')) p++; }
	bool parse(J &j) {
		ws(); if (p >= e) return false;
		if (*p == '{') { j.t = J::OBJ; p++; ws(); if (*p == '}') { p++; return true; }
			while (true) { J k; if (!parse(k) || k.t != J::STR) return false; ws(); if (*p++ != ':') return false; J v; if (!parse(v)) return false; j.o.push_back({k.s, v}); ws(); if (*p == ',') { p++; continue; } if (*p == '}') { p++; return true; } return false; } }
		if (*p == '[') { j.t = J::ARR; p++; ws(); if (*p == ']') { p++; return true; }
			while (true) { J v; if (!parse(v)) return false; j.a.push_back(v); ws(); if (*p == ',') { p++; continue; } if (*p == ']') { p++; return true; } return false; } }
		if (*p == '"') { j.t = J::STR; p++; while (p < e && *p != '"') { if (*p == '\\' && p + 1 < e) { p++; char c = *p; if (c == 'n') j.s += '\n'; else if (c == 't') j.s += '\t'; else j.s += c; } else j.s += *p; p++; } p++; return true; }
		if (!strncmp(p, "true", 4)) { j.t = J::BOOL; j.b = true; p += 4; return true; }
		if (!strncmp(p, "false", 5)) { j.t = J::BOOL; j.b = false; p += 5; return true; }
		if (!strncmp(p, "null", 4)) { j.t = J::NUL; p += 4; return true; }
		char *end; j.t = J::NUM; j.inum = strtoll(p, &end, 10);
		if (end < e && (*end == '.' || *end == 'e' || *end == 'E')) { j.num = strtod(p, &end); j.inum = (int64_t)j.num; } else { j.num = (double)j.inum; j.isint = true; }
		if (end == p) return false;
		p = end; return true;
	}
};
static std::string jesc(const std::string &s) {
	std::string o;
	for (char c : s) { if (c == '"' || c == '\\') { o += '\\'; o += c; } else if (c == '\n') o += "\\n"; else if ((unsigned char)c < 32) o += ' '; else o += c; }
	return o;
}

// ------------------------------------------------------------------ plan <-> JSON
static const char *strat_names[] = {"seq", "rand", "pct", "sync", "stall"};
static Engine *E;

static std::string op_json(const Op &o) {
	char b[256];
	snprintf(b, sizeof b, "[%d,%d,\"%s\",%lld,%lld,%lld,%lld,%u,%u]", o.task, o.id, E->op_name(o.kind), (long long)o.a[0], (long long)o.a[1], (long long)o.a[2], (long long)o.a[3], o.mapfail, o.place);
	return b;
}

static std::string plan_json(const Plan &p, const RunResult *res, const std::string &extra) {
	std::ostringstream s;
	s << "{\"v\":1,\"engine\":\"" << E->name() << "\",\"profile\":\"" << jesc(p.profile) << "\",\"cfg\":" << p.cfg << ",\"cfg_name\":\"" << jesc(E->cfg_name(p.cfg)) << "\"";
	s << ",\"ntasks\":" << p.ntasks << ",\"mem\":\"" << (p.mem == MEM_SC ? "sc" : "relaxed") << "\",\"seed\":" << p.seed;
	s << ",\"strategy\":\"" << strat_names[p.strat] << "\",\"strategy_arg\":" << p.strat_arg << ",\"stale_q\":" << p.stale_q << ",\"window\":" << p.window << ",\"casfail_q\":" << p.casfail_q;
	s << ",\"knobs\":{"; bool f = true; for (auto &kv : p.knobs) { s << (f ? "" : ",") << "\"" << kv.first << "\":" << kv.second; f = false; } s << "}";
	s << ",\n \"ops\":["; f = true; for (auto &o : p.ops) { s << (f ? "" : ",") << op_json(o); f = false; } s << "]";
	const std::vector<SchedEntry> &sc = p.replay ? p.sched : (res ? res->sched : p.sched);
	const std::vector<FaultEntry> &fa = p.replay ? p.faults : (res ? res->faults : p.faults);
	s << ",\n \"sched\":["; f = true; for (auto &x : sc) { s << (f ? "" : ",") << "[" << x.task << "," << x.opid << "," << x.k << "," << x.next << "]"; f = false; } s << "]";
	s << ",\n \"faults\":["; f = true; for (auto &x : fa) { s << (f ? "" : ",") << "[" << x.kind << "," << x.task << "," << x.opid << "," << x.k << "," << x.v << "]"; f = false; } s << "]";
	s << ",\n \"stale_disable\":["; f = true; for (auto &x : p.stale_disable) { s << (f ? "" : ",") << "[" << x.first << "," << x.second << "]"; f = false; } s << "]";
	s << ",\"stale_only\":["; f = true; for (auto &x : p.stale_only) { s << (f ? "" : ",") << "[" << x.first << "," << x.second << "]"; f = false; } s << "]";
	if (res && res->v.set) {
		s << ",\n \"violation\":{\"class\":\"" << jesc(res->v.cls) << "\",\"property\":\"" << E->property_of(res->v.cls, p.profile) << "\",\"msg\":\"" << jesc(res->v.msg) << "\",\"step\":" << res->v.step << ",\"task\":" << res->v.task << ",\"opid\":" << res->v.opid << ",\"op\":\"" << (res->v.opkind >= 0 ? E->op_name(res->v.opkind) : "-") << "\"}";
		char hb[32]; snprintf(hb, sizeof hb, "%016llx", (unsigned long long)res->hash);
		s << ",\"log_hash\":\"" << hb << "\"";
	}
	s << extra << "}\n";
	return s.str();
}

static bool plan_from_json(const J &j, Plan &p) {
	p.engine = j.str("engine"); p.profile = j.str("profile"); p.cfg = (int)j.i("cfg"); p.ntasks = (int)j.i("ntasks", 1);
	p.mem = j.str("mem") == "relaxed" ? MEM_RELAXED : MEM_SC; p.seed = (uint64_t)j.i("seed");
	std::string st = j.str("strategy", "seq"); p.strat = S_SEQ; for (int i = 0; i < S_NSTRAT; i++) if (st == strat_names[i]) p.strat = i;
	p.strat_arg = (int)j.i("strategy_arg"); p.stale_q = (int)j.i("stale_q"); p.window = (int)j.i("window"); p.casfail_q = (int)j.i("casfail_q");
	if (auto k = j.get("knobs")) for (auto &kv : k->o) p.knobs[kv.first] = kv.second.inum;
	if (auto ops = j.get("ops")) for (auto &x : ops->a) {
		if (x.a.size() < 7) return false;
		Op o; o.task = (int)x.a[0].inum; o.id = (int)x.a[1].inum; o.kind = E->op_kind(x.a[2].s);
		if (o.kind < 0) { fprintf(stderr, "unknown op %s\n", x.a[2].s.c_str()); return false; }
		for (int i = 0; i < 4; i++) o.a[i] = x.a[3 + i].inum;
		if (x.a.size() > 7) o.mapfail = (uint32_t)x.a[7].inum;
		if (x.a.size() > 8) o.place = (uint32_t)x.a[8].inum;
		p.ops.push_back(o);
	}
	if (auto sc = j.get("sched")) for (auto &x : sc->a) if (x.a.size() >= 4) p.sched.push_back({(int)x.a[0].inum, (int)x.a[1].inum, (uint32_t)x.a[2].inum, (int)x.a[3].inum});
	if (auto fa = j.get("faults")) for (auto &x : fa->a) if (x.a.size() >= 5) p.faults.push_back({(int)x.a[0].inum, (int)x.a[1].inum, (int)x.a[2].inum, (uint32_t)x.a[3].inum, x.a[4].inum});
	if (auto sd = j.get("stale_disable")) for (auto &x : sd->a) if (x.a.size() >= 2) p.stale_disable.push_back({(int)x.a[0].inum, (int)x.a[1].inum});
	if (auto so = j.get("stale_only")) for (auto &x : so->a) if (x.a.size() >= 2) p.stale_only.push_back({(int)x.a[0].inum, (int)x.a[1].inum});
	p.replay = true;
	return true;
}

static bool read_file(const char *path, std::string &out) {
	FILE *f = fopen(path, "rb"); if (!f) return false;
	char buf[65536]; size_t n; while ((n = fread(buf, 1, sizeof buf, f)) > 0) out.append(buf, n);
	fclose(f); return true;
}

// ------------------------------------------------------------------ minimisation
struct Target { std::string cls, prop; };
static int g_min_runs = 0, g_min_budget = 1500;
static double g_min_deadline = 0;
static double nowsec();
static bool still_fails(const Plan &p, const Target &t, RunResult *out = nullptr) {
	g_min_runs++;
	if (g_min_deadline && nowsec() > g_min_deadline) g_min_runs = g_min_budget; // wall-clock cap on minimisation
	RunResult r = execute(E, p);
	bool ok = r.v.set && r.v.cls == t.cls;
	if (ok && out) *out = r;
	return ok;
}

template <class T, class F>
static void ddmin(std::vector<T> &items, F test) {
	size_t n = 2;
	while (items.size() >= 1 && g_min_runs < g_min_budget) {
		if (items.size() == 1) { std::vector<T> none; if (test(none)) items.clear(); break; }
		size_t chunk = (items.size() + n - 1) / n;
		bool reduced = false;
		for (size_t s = 0; s < items.size() && g_min_runs < g_min_budget; s += chunk) {
			std::vector<T> comp;
			for (size_t i = 0; i < items.size(); i++) if (i < s || i >= s + chunk) comp.push_back(items[i]);
			if (test(comp)) { items = comp; n = n > 2 ? n - 1 : 2; reduced = true; break; }
		}
		if (!reduced) { if (n >= items.size()) break; n = std::min(items.size(), n * 2); }
	}
}

static Plan minimise(const Plan &orig, const Target &t) {
	Plan p = orig;
	g_min_runs = 0;
	g_min_deadline = nowsec() + 25;
	for (int round = 0; round < 3 && g_min_runs < g_min_budget; round++) {
		size_t before = p.ops.size() + p.sched.size() + p.faults.size();
		// all faults / all schedule entries gone at once? cheap first tries
		{ Plan q = p; q.faults.clear(); if (!p.faults.empty() && still_fails(q, t)) p = q; }
		{ Plan q = p; q.sched.clear(); if (!p.sched.empty() && still_fails(q, t)) p = q; }
		ddmin(p.ops, [&](const std::vector<Op> &c) { Plan q = p; q.ops = c; return still_fails(q, t); });
		ddmin(p.sched, [&](const std::vector<SchedEntry> &c) { Plan q = p; q.sched = c; return still_fails(q, t); });
		ddmin(p.faults, [&](const std::vector<FaultEntry> &c) { Plan q = p; q.faults = c; return still_fails(q, t); });
		// per-op fault bits and argument simplification
		for (size_t i = 0; i < p.ops.size() && g_min_runs < g_min_budget; i++) {
			if (p.ops[i].mapfail) { Plan q = p; q.ops[i].mapfail = 0; if (still_fails(q, t)) p = q; }
			if (p.ops[i].place) { Plan q = p; q.ops[i].place = 0; if (still_fails(q, t)) p = q; }
			bool progress = true; int guard = 0;
			while (progress && guard++ < 8 && g_min_runs < g_min_budget) {
				progress = false;
				for (Op &cand : E->simplify(p.ops[i])) {
					Plan q = p; q.ops[i] = cand;
					if (still_fails(q, t)) { p = q; progress = true; break; }
				}
			}
		}
		if (p.mem == MEM_RELAXED && p.faults.empty()) { Plan q = p; q.mem = MEM_SC; if (still_fails(q, t)) p = q; }
		// drop unused trailing tasks
		int maxt = 1; for (auto &o : p.ops) maxt = std::max(maxt, o.task);
		for (auto &s : p.sched) maxt = std::max(maxt, std::max(s.task, s.next));
		if (maxt < p.ntasks) { Plan q = p; q.ntasks = maxt; if (still_fails(q, t)) p = q; }
		if (p.ops.size() + p.sched.size() + p.faults.size() == before) break;
	}
	return p;
}

// ------------------------------------------------------------------ stats
struct Stats {
	uint64_t first_violation_at = 0; // number of runs this worker had executed when it saw its first violation (0 = none)
	uint64_t runs = 0, derived_runs = 0, steps = 0, violations = 0, stopped = 0, capped = 0, nondet = 0, multi = 0, preempted_runs = 0;
	uint64_t preemptions = 0, switches = 0;
	uint64_t fired[FK_NKINDS] = {0};
	uint64_t runs_with_fault[FK_NKINDS] = {0};
	std::map<std::string, uint64_t> by_strat, by_cfg, by_mem, by_ntasks, stop_reasons, viol_classes;
	std::unordered_set<uint64_t> plan_hashes, sched_hashes;
	std::vector<std::string> samples;
	double wall = 0;
};

static void account(Stats &st, const Plan &p, const RunResult &r, bool derived) {
	st.runs++; if (derived) st.derived_runs++;
	st.steps += r.steps; st.preemptions += r.preemptions; st.switches += r.switches;
	if (r.stopped) { st.stopped++; st.stop_reasons[r.stop_reason.substr(0, 80)]++; }
	if (r.capped) st.capped++;
	for (int k = 0; k < FK_NKINDS; k++) { st.fired[k] += r.fired[k]; if (r.fired[k]) st.runs_with_fault[k]++; }
	char b[64];
	snprintf(b, sizeof b, "%s(%d)", strat_names[p.strat], p.strat_arg); st.by_strat[b]++;
	st.by_cfg[E->cfg_name(p.cfg)]++;
	st.by_mem[p.mem == MEM_SC ? "sc" : "relaxed"]++;
	snprintf(b, sizeof b, "%d", p.ntasks); st.by_ntasks[b]++;
	st.plan_hashes.insert(r.plan_hash);
	if (p.ntasks >= 2) { st.multi++; if (r.preemptions) { st.preempted_runs++; st.sched_hashes.insert(r.plan_hash ^ (r.sched_hash * 0x9e3779b97f4a7c15ull)); } }
}

static void write_stats(const Stats &st, const char *path, const std::string &profile) {
	FILE *f = fopen(path, "w"); if (!f) { perror(path); return; }
	fprintf(f, "{\"engine\":\"%s\",\"profile\":\"%s\",\"runs\":%llu,\"derived_runs\":%llu,\"steps\":%llu,\"violations\":%llu,\"stopped\":%llu,\"capped\":%llu,\"nondeterministic\":%llu,\"multi_task_runs\":%llu,\"preempted_runs\":%llu,\"preemptions\":%llu,\"switches\":%llu,\"wall_s\":%.3f",
		E->name(), profile.c_str(), (unsigned long long)st.runs, (unsigned long long)st.derived_runs, (unsigned long long)st.steps, (unsigned long long)st.violations, (unsigned long long)st.stopped, (unsigned long long)st.capped, (unsigned long long)st.nondet, (unsigned long long)st.multi, (unsigned long long)st.preempted_runs, (unsigned long long)st.preemptions, (unsigned long long)st.switches, st.wall);
	fprintf(f, ",\"distinct_plans\":%zu,\"distinct_schedules\":%zu", st.plan_hashes.size(), st.sched_hashes.size());
	fprintf(f, ",\"first_violation_at\":%llu", (unsigned long long)st.first_violation_at);
	fprintf(f, ",\"faults_fired\":{"); for (int k = 0; k < FK_NKINDS; k++) fprintf(f, "%s\"%s\":%llu", k ? "," : "", fault_kind_names[k], (unsigned long long)st.fired[k]); fprintf(f, "}");
	fprintf(f, ",\"runs_with_fault\":{"); for (int k = 0; k < FK_NKINDS; k++) fprintf(f, "%s\"%s\":%llu", k ? "," : "", fault_kind_names[k], (unsigned long long)st.runs_with_fault[k]); fprintf(f, "}");
	auto dump = [&](const char *name, const std::map<std::string, uint64_t> &m) { fprintf(f, ",\"%s\":{", name); bool first = true; for (auto &kv : m) { fprintf(f, "%s\"%s\":%llu", first ? "" : ",", jesc(kv.first).c_str(), (unsigned long long)kv.second); first = false; } fprintf(f, "}"); };
	dump("by_strategy", st.by_strat); dump("by_config", st.by_cfg); dump("by_memory", st.by_mem); dump("by_ntasks", st.by_ntasks); dump("stop_reasons", st.stop_reasons); dump("violation_classes", st.viol_classes);
	fprintf(f, ",\"probes\":{"); { auto &n = all_probe_names(); auto &c = all_probe_counts(); for (size_t i = 0; i < n.size(); i++) fprintf(f, "%s\"%s\":%llu", i ? "," : "", n[i].c_str(), (unsigned long long)c[i]); } fprintf(f, "}");
	std::map<std::string, std::string> kv; E->describe(kv);
	fprintf(f, ",\"describe\":{"); { bool first = true; for (auto &x : kv) { fprintf(f, "%s\"%s\":\"%s\"", first ? "" : ",", x.first.c_str(), jesc(x.second).c_str()); first = false; } } fprintf(f, "}");
	fprintf(f, ",\"samples\":["); for (size_t i = 0; i < st.samples.size(); i++) fprintf(f, "%s%s", i ? "," : "", st.samples[i].c_str()); fprintf(f, "]}\n");
	fclose(f);
}

static double nowsec() { struct timespec ts; clock_gettime(CLOCK_MONOTONIC, &ts); return ts.tv_sec + ts.tv_nsec * 1e-9; }

static void parse_sites(const char *s, std::vector<std::pair<int, int>> &out) {
	// "opname:k,opname:k" ; k = -1 or * for any
	std::string str = s; size_t pos = 0;
	while (pos < str.size()) {
		size_t c = str.find(',', pos); if (c == std::string::npos) c = str.size();
		std::string item = str.substr(pos, c - pos); pos = c + 1;
		size_t col = item.find(':'); if (col == std::string::npos) continue;
		int kind = E->op_kind(item.substr(0, col)); std::string ks = item.substr(col + 1);
		int k = ks == "*" ? -1 : atoi(ks.c_str());
		if (kind >= 0) out.push_back({kind, k});
	}
}

static void print_violation(const Plan &p, const RunResult &r) {
	fprintf(stderr, "  violation class=%s property=%s task=%d op=%s(id %d) step=%llu\n    %s\n", r.v.cls.c_str(), E->property_of(r.v.cls, p.profile), r.v.task, r.v.opkind >= 0 ? E->op_name(r.v.opkind) : "-", r.v.opid, (unsigned long long)r.v.step, r.v.msg.c_str());
}

int main(int argc, char **argv) {
	setvbuf(stdout, nullptr, _IOLBF, 0);
	E = make_engine();
	if (argc < 2) { fprintf(stderr, "usage: %s run|replay|one ...\n", argv[0]); return 64; }
	std::string cmd = argv[1];
	std::string profile = "default", outdir = ".", dump;
	int tier = 0, worker = 0; uint64_t base = 1, start = 0, count = 1000; double tlimit = 1e9; bool verbose = false;
	int max_viol = 3; const char *file = nullptr;
	std::vector<std::pair<int, int>> stale_disable, stale_only;
	std::map<std::string, int64_t> force_knobs;
	int force_mem = -1, force_cfg = -1;
	for (int i = 2; i < argc; i++) {
		std::string a = argv[i];
		auto nxt = [&]() { return i + 1 < argc ? argv[++i] : (char *)""; };
		if (a == "--profile") profile = nxt();
		else if (a == "--tier") { std::string t = nxt(); tier = t == "thorough" ? 1 : 0; }
		else if (a == "--base-seed") base = strtoull(nxt(), nullptr, 10);
		else if (a == "--seed") base = strtoull(nxt(), nullptr, 10);
		else if (a == "--start") start = strtoull(nxt(), nullptr, 10);
		else if (a == "--count") count = strtoull(nxt(), nullptr, 10);
		else if (a == "--time") tlimit = atof(nxt());
		else if (a == "--worker") worker = atoi(nxt());
		else if (a == "--out") outdir = nxt();
		else if (a == "--max-viol") max_viol = atoi(nxt());
		else if (a == "--stale-disable") parse_sites(nxt(), stale_disable);
		else if (a == "--stale-only") parse_sites(nxt(), stale_only);
		else if (a == "--mem") { std::string m = nxt(); force_mem = m == "relaxed" ? MEM_RELAXED : MEM_SC; }
		else if (a == "--cfg") force_cfg = atoi(nxt());
		else if (a == "--knob") { std::string kv = nxt(); size_t e = kv.find('='); if (e != std::string::npos) force_knobs[kv.substr(0, e)] = atoll(kv.c_str() + e + 1); }
		else if (a == "--dump") dump = nxt();
		else if (a == "--min-budget") g_min_budget = atoi(nxt());
		else if (a == "-v") verbose = true;
		else if (a[0] != '-') file = argv[i];
	}

	auto gen = [&](uint64_t seed, Plan &p) {
		Rng rng; rng.seed(seed);
		p.engine = E->name(); p.profile = profile; p.seed = seed;
		p.stale_disable = stale_disable; p.stale_only = stale_only;
		for (auto &kv : force_knobs) p.knobs[kv.first] = kv.second;
		if (force_cfg >= 0) p.knobs["force_cfg"] = force_cfg;
		if (force_mem >= 0) p.knobs["force_mem"] = force_mem;
		E->generate(rng, p, profile, tier);
		if (force_mem >= 0) p.mem = force_mem;
	};

	if (cmd == "replay") {
		if (!file) { fprintf(stderr, "replay needs a file\n"); return 64; }
		std::string txt; if (!read_file(file, txt)) { perror(file); return 64; }
		J j; JP jp{txt.data(), txt.data() + txt.size()};
		if (!jp.parse(j)) { fprintf(stderr, "bad json\n"); return 64; }
		Plan p; if (!plan_from_json(j, p)) return 64;
		RunResult r = execute(E, p);
		RunResult r2 = execute(E, p);
		std::string want_cls; if (auto v = j.get("violation")) want_cls = v->str("class");
		std::string want_hash = j.str("log_hash");
		char hb[32]; snprintf(hb, sizeof hb, "%016llx", (unsigned long long)r.hash);
		printf("replay engine=%s ops=%zu sched=%zu faults=%zu steps=%llu hash=%s\n", E->name(), p.ops.size(), p.sched.size(), p.faults.size(), (unsigned long long)r.steps, hb);
		if (r.hash != r2.hash) { printf("REPLAY-NONDETERMINISTIC\n"); return 2; }
		if (r.v.set) {
			printf("violation class=%s property=%s task=%d op=%s opid=%d step=%llu\n  %s\n", r.v.cls.c_str(), E->property_of(r.v.cls, p.profile), r.v.task, r.v.opkind >= 0 ? E->op_name(r.v.opkind) : "-", r.v.opid, (unsigned long long)r.v.step, r.v.msg.c_str());
			if (!want_cls.empty() && want_cls != r.v.cls) { printf("REPLAY-MISMATCH expected class %s\n", want_cls.c_str()); return 2; }
			if (!want_hash.empty() && want_hash != hb) printf("note: log hash differs from recorded (%s) — same class, different build or tree\n", want_hash.c_str());
			printf("REPRODUCED\n");
			return 1;
		}
		printf("no violation%s\n", r.stopped ? " (stopped)" : "");
		if (!want_cls.empty()) { printf("REPLAY-NOT-REPRODUCED expected class %s\n", want_cls.c_str()); return 0; }
		return 0;
	}

	if (cmd == "one") {
		Plan p; gen(base, p);
		RunResult r = execute(E, p);
		std::string js = plan_json(p, &r, "");
		if (!dump.empty()) { FILE *f = fopen(dump.c_str(), "w"); fputs(js.c_str(), f); fclose(f); }
		if (verbose) fputs(js.c_str(), stdout);
		printf("seed=%llu steps=%llu hash=%016llx preempt=%llu switches=%llu stopped=%d capped=%d\n", (unsigned long long)base, (unsigned long long)r.steps, (unsigned long long)r.hash, (unsigned long long)r.preemptions, (unsigned long long)r.switches, r.stopped, r.capped);
		if (r.v.set) { print_violation(p, r); return 1; }
		return 0;
	}

	if (cmd == "hashes") { // determinism test: print seed and hash for a range
		for (uint64_t i = start; i < start + count; i++) {
			uint64_t seed = splitmix(base, i);
			Plan p; gen(seed, p);
			RunResult r = execute(E, p);
			printf("%llu %016llx %llu %s\n", (unsigned long long)seed, (unsigned long long)r.hash, (unsigned long long)r.steps, r.v.set ? r.v.cls.c_str() : "-");
		}
		return 0;
	}

	if (cmd == "selfreplay") { // every seeded run must be reproduced exactly by replaying its recorded schedule + faults
		uint64_t bad = 0, n = 0;
		for (uint64_t i = start; i < start + count; i++) {
			uint64_t seed = splitmix(base, i);
			Plan p; gen(seed, p);
			RunResult r = execute(E, p);
			Plan rp = p; rp.replay = true; rp.sched = r.sched; rp.faults = r.faults;
			RunResult r2 = execute(E, rp);
			n++;
			if (r.hash != r2.hash || r.steps != r2.steps) { bad++; if (bad <= 5) printf("SELFREPLAY-MISMATCH seed=%llu hash %016llx vs %016llx steps %llu vs %llu sched=%zu faults=%zu\n", (unsigned long long)seed, (unsigned long long)r.hash, (unsigned long long)r2.hash, (unsigned long long)r.steps, (unsigned long long)r2.steps, r.sched.size(), r.faults.size()); }
		}
		printf("selfreplay %llu runs %llu mismatches\n", (unsigned long long)n, (unsigned long long)bad);
		return bad ? 2 : 0;
	}

	if (cmd != "run") { fprintf(stderr, "unknown command\n"); return 64; }

	Stats st;
	double t0 = nowsec();
	int nviol = 0; int exitcode = 0;
	std::set<std::string> seen_classes;
	auto handle_violation = [&](const Plan &p, const RunResult &r, uint64_t seed, bool derived) {
		st.violations++; st.viol_classes[r.v.cls]++;
		if (!st.first_violation_at) st.first_violation_at = st.runs;
		if (seen_classes.count(r.v.cls)) return; // one minimised replay per class and worker
		seen_classes.insert(r.v.cls);
		nviol++;
		fprintf(stderr, "[w%d] seed %llu%s:\n", worker, (unsigned long long)seed, derived ? " (derived fault plan)" : "");
		print_violation(p, r);
		// gate 1: same plan again, identical log
		RunResult r2 = execute(E, p);
		if (r2.hash != r.hash || !r2.v.set || r2.v.cls != r.v.cls) {
			st.nondet++; exitcode = 2;
			printf("NONDETERMINISTIC seed=%llu class=%s hash1=%016llx hash2=%016llx\n", (unsigned long long)seed, r.v.cls.c_str(), (unsigned long long)r.hash, (unsigned long long)r2.hash);
			return;
		}
		// gate 2: recorded trace replays to the same class
		Plan rp = p;
		if (!p.replay) { rp.replay = true; rp.sched = r.sched; rp.faults = r.faults; }
		Target tg{r.v.cls, E->property_of(r.v.cls, p.profile)};
		RunResult r3;
		if (!still_fails(rp, tg, &r3)) {
			st.nondet++; exitcode = 2;
			printf("REPLAY-DIVERGES seed=%llu class=%s\n", (unsigned long long)seed, r.v.cls.c_str());
			return;
		}
		size_t o0 = rp.ops.size(), s0 = rp.sched.size(), f0 = rp.faults.size();
		Plan mp = minimise(rp, tg);
		g_min_deadline = 0;
		RunResult mr; if (!still_fails(mp, tg, &mr)) { mp = rp; mr = r3; }
		char extra[256]; snprintf(extra, sizeof extra, ",\"found_by_seed\":%llu,\"minimised_from\":{\"ops\":%zu,\"sched\":%zu,\"faults\":%zu,\"runs\":%d}", (unsigned long long)seed, o0, s0, f0, g_min_runs);
		char path[512]; snprintf(path, sizeof path, "%s/viol.%s.w%d.%d.json", outdir.c_str(), r.v.cls.substr(0, r.v.cls.find(':')).c_str(), worker, nviol);
		FILE *f = fopen(path, "w"); if (f) { fputs(plan_json(mp, &mr, extra).c_str(), f); fclose(f); }
		fprintf(stderr, "    minimised %zu ops/%zu sched/%zu faults -> %zu/%zu/%zu in %d runs: %s\n", o0, s0, f0, mp.ops.size(), mp.sched.size(), mp.faults.size(), g_min_runs, mr.v.msg.c_str());
		printf("FOUND property=%s class=%s replay=%s\n", tg.prop.c_str(), r.v.cls.c_str(), path);
		if (exitcode == 0) exitcode = 1;
	};

	for (uint64_t i = start; i < start + count; i++) {
		if (nowsec() - t0 > tlimit) break;
		if (nviol >= max_viol || st.violations >= 40) break; // enough evidence: stop the batch early
		uint64_t seed = splitmix(base, i);
		Plan p; gen(seed, p);
		RunResult r = execute(E, p);
		account(st, p, r, false);
		if (st.samples.size() < 2 || (st.samples.size() < 4 && p.ntasks >= 2 && r.preemptions)) {
			Plan q = p; if (q.ops.size() > 40) q.ops.resize(40);
			RunResult rr = r; if (rr.sched.size() > 30) rr.sched.resize(30); if (rr.faults.size() > 30) rr.faults.resize(30);
			st.samples.push_back(plan_json(q, &rr, ""));
		}
		if (r.v.set) { handle_violation(p, r, seed, false); continue; }
		std::vector<Plan> derived;
		E->derive(p, derived);
		for (auto &dp : derived) {
			RunResult dr = execute(E, dp);
			account(st, dp, dr, true);
			if (dr.v.set) { handle_violation(dp, dr, seed, true); break; }
		}
	}
	st.wall = nowsec() - t0;
	char path[512]; snprintf(path, sizeof path, "%s/stats.w%d.json", outdir.c_str(), worker);
	write_stats(st, path, profile);
	snprintf(path, sizeof path, "%s/hashes.w%d.bin", outdir.c_str(), worker);
	{ FILE *f = fopen(path, "wb"); if (f) { for (auto h : st.plan_hashes) { uint64_t x = h | 1; fwrite(&x, 8, 1, f); } for (auto h : st.sched_hashes) { uint64_t x = h & ~1ull; fwrite(&x, 8, 1, f); } fclose(f); } }
	printf("DONE worker=%d runs=%llu steps=%llu violations=%llu wall=%.1f\n", worker, (unsigned long long)st.runs, (unsigned long long)st.steps, (unsigned long long)st.violations, st.wall);
	return exitcode;
}
